#!/venv/bin/python
"""Writes one brief per claimed property for an independent 'bug seeder' sub-agent.
usage: make_seed_prompts.py <worktree-prefix> <outdir>     e.g. /tmp/w4_ /tmp/agent_prompts4
Worktree N (1..11) must exist: git -C /repo worktree add --detach <prefix>N HEAD.  The brief contains only the property text,
the off-limits rules and one-line descriptions of the changes already collected under /verif/seeded (so that new kinds are produced)."""
import glob
import json
import os
import sys

IDS = ['C07', 'C08', 'C09', 'C11', 'C12', 'C13', 'C15', 'C16', 'C17', 'C18', 'C19']
VERIF = os.path.dirname(os.path.dirname(os.path.abspath(__file__)))


def main():
    prefix, outdir = sys.argv[1], sys.argv[2]
    os.makedirs(outdir, exist_ok=True)
    props = {json.loads(l)['id']: json.loads(l) for l in open(os.path.join(VERIF, 'properties.jsonl'))}
    prev = {}
    for d in sorted(glob.glob(os.path.join(VERIF, 'seeded', '*'))):
        m = json.load(open(d + '/meta.json'))
        if 'breaks' not in m:
            continue      # behaviour-preserving refactorings are not 'collected changes'
        prev.setdefault(m['property'], []).append(" ".join(m['breaks'].strip().splitlines())[:300])
    for n, pid in enumerate(IDS, 1):
        p = props[pid]
        wt = "%s%d" % (prefix, n)
        text = f"""You are helping to evaluate a verification effort for the open-source library rosjat/python-scsi (a pure-Python SCSI initiator library). Your job is to act as a careful *bug seeder*: introduce realistic defects that break one stated property of the library while staying invisible to the library's existing test suite.

WORKSPACE: a scratch git worktree of the repository at {wt} (HEAD is the current state of the library). Work ONLY inside {wt}. Do NOT read, list or use anything under /verif, /root/.vp, /root/.claude or /repo (those are off limits; your work must be independent of them). Never commit; never modify files outside {wt}.
Python: /venv/bin/python (3.12). Run the existing tests with:
    cd {wt} && PYTHONPATH={wt} /venv/bin/python -m pytest -q -p no:cacheprovider tests
(PYTHONPATH matters: without it `import pyscsi` resolves to another checkout.) In your own demo programs start with `import sys; sys.path.insert(0, "{wt}")` and assert that `pyscsi.__file__` is under {wt}. The C extension bindings `sgio` and `iscsi` are NOT installed; if your demonstration needs them, write small stand-in modules yourself (e.g. install a fake module object into sys.modules['sgio'] before importing pyscsi.pyscsi.scsi_device; patch builtins.open/os.stat for fake /dev nodes).

THE PROPERTY (id {pid}): {p['title']}
Statement: {p['statement']}
Quantified over: {p['quantifier']['text']}
Why the existing tests cannot settle it: {p['why_tests_cant']}
Code anchors: {json.dumps(p['anchors'].get('mechanism', []))}
Files: {', '.join(p['anchors']['files'][:12])}

ALREADY COLLECTED in earlier rounds (do NOT repeat these or close variants; find changes of a DIFFERENT kind):
""" + "\n".join("  - " + x for x in prev.get(pid, [])) + f"""
Hints for finding new kinds: look at every file and function the property's statement touches that the list above does NOT mention; at code paths only reachable through unusual but legal call sequences or argument combinations; at interactions between this property's mechanism and another feature of the library; at data-dependent behaviour (a particular value, length, alignment or ordering); at configuration (constructor options, which optional module is installed, which command set is attached); at resource handling on error paths; at anything that behaves differently the second time. Each change should be something a code reviewer could plausibly approve.

TASK: produce THREE different changes to the library source (under {wt}/pyscsi), each of which
  (a) breaks the property above,
  (b) still imports/compiles and keeps ALL 45 existing tests passing (run them!),
  (c) looks like something a real maintainer could plausibly write (a refactor gone wrong, an optimisation, an off-by-one, a cache, a reordered statement, a too-narrow or too-broad condition, a forgotten case) - not sabotage that ordinary use would expose at once,
  (d) needs something SPECIFIC to manifest: a particular interleaving, a fault at a particular point, a multi-step sequence of operations, an unusual input/boundary value, a particular configuration, or two cooperating sites that each look fine alone. Prefer subtle over blatant, and make the three changes different in kind.
For each change i = 1..3 deliver, in the directory {wt}/_out/ :
  - patch{{i}}.diff : the change as a unified diff produced by `git -C {wt} diff` (relative to HEAD) with ONLY that change applied,
  - demo{{i}}.py : a small self-contained program that exits 0 on the unmodified library and exits non-zero (assertion failure) when patch{{i}} is applied; it should print what it observed,
  - note{{i}}.txt : 3-6 lines: what was changed, why it breaks the property, and exactly what is needed for the breakage to manifest.
Procedure per change: edit -> run the 45 tests (must pass) -> run your demo (must fail) -> save `git diff` to patch{{i}}.diff -> `git -C {wt} checkout -- .` (restore clean tree) -> run the demo again (must pass). At the very end the worktree must be clean (apart from the untracked _out/ directory).
Finally reply with a short summary (one paragraph per change) - no need to paste the diffs.
"""
        open(os.path.join(outdir, "%s.txt" % pid), "w").write(text)
    print("wrote %d briefs to %s" % (len(IDS), outdir))


if __name__ == "__main__":
    main()
