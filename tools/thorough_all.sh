#!/bin/bash
# run every thorough tier one after the other (background soak); evidence is not kept (snapshot run)
cd "$(dirname "$0")/.."
for p in C07 C08 C09 C11 C12 C13 C15 C16 C17 C18 C19; do
  echo "=== $p $(date +%T)"
  VERIF_WORKERS=${VERIF_WORKERS:-12} /venv/bin/python check.py $p --tier thorough --no-evidence 2>&1 | tail -15
done
echo "=== done $(date +%T)"
