#!/bin/bash
# quick tier under several VERIF_SEED values: no seed may raise an alarm on the unchanged tree
cd "$(dirname "$0")/.."
for s in 1 2 3 4 5 6 7; do
  for p in C07 C08 C09 C11 C12 C13 C15 C16 C17 C18 C19; do
    VERIF_SEED=$s VERIF_WORKERS=${VERIF_WORKERS:-8} /venv/bin/python check.py $p --tier quick --no-evidence 2>&1 | tail -1 | sed "s/^/seed=$s /"
  done
done
echo done
