#!/bin/bash
# thorough tier of the properties named on the command line (background soak after a change to one check)
cd "$(dirname "$0")/.."
for p in "$@"; do
  echo "=== $p $(date +%T)"
  VERIF_WORKERS=${VERIF_WORKERS:-12} /venv/bin/python check.py $p --tier thorough --no-evidence 2>&1 | tail -15
done
echo "=== done $(date +%T)"
