#!/bin/bash
# thorough tier of the properties named on the command line (background soak after a change to one check);
# an optional first argument seed=N runs them under VERIF_SEED=N
cd "$(dirname "$0")/.."
if [[ "$1" == seed=* ]]; then export VERIF_SEED="${1#seed=}"; shift; fi
for p in "$@"; do
  echo "=== $p $(date +%T) VERIF_SEED=${VERIF_SEED:-0}"
  VERIF_WORKERS=${VERIF_WORKERS:-12} /venv/bin/python check.py $p --tier thorough --no-evidence 2>&1 | tail -15
done
echo "=== done $(date +%T)"
