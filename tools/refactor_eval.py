#!/venv/bin/python
"""Specificity: apply a behaviour-preserving refactoring (sub-agent patch) to a scratch copy of /repo and run the quick
tier of EVERY check against it: none may alarm.  usage: refactor_eval.py PROP WORKTREE [--keep]"""
import json
import os
import shutil
import subprocess
import sys
import tempfile

VERIF = os.path.dirname(os.path.dirname(os.path.abspath(__file__)))
PY = "/venv/bin/python"
ALL = ["C07", "C08", "C09", "C11", "C12", "C13", "C15", "C16", "C17", "C18", "C19"]


def main():
    prop, wt = sys.argv[1].upper(), sys.argv[2]
    keep = "--keep" in sys.argv
    for i in (1, 2, 3, 4, 5):
        patch = os.path.join(wt, "_out", "patch%d.diff" % i)
        if not os.path.exists(patch):
            print(prop, "rf%d" % i, "missing")
            continue
        tmp = tempfile.mkdtemp(prefix="verif_rf_")
        try:
            dst = os.path.join(tmp, "repo")
            shutil.copytree("/repo", dst, ignore=shutil.ignore_patterns(".git", "__pycache__", "*.egg-info"))
            p = subprocess.run(["patch", "-p1", "-s", "-i", patch], cwd=dst, capture_output=True, text=True)
            if p.returncode != 0:
                print(prop, "rf%d" % i, "PATCH DOES NOT APPLY", (p.stdout + p.stderr)[:200])
                continue
            t = subprocess.run([PY, "-m", "pytest", "-q", "-p", "no:cacheprovider", "tests"], cwd=dst, capture_output=True, text=True, env=dict(os.environ, PYTHONPATH=dst))
            res = {}
            for c in ALL:
                r = subprocess.run([PY, os.path.join(VERIF, "check.py"), c, "--repo", dst, "--no-evidence", "--no-selfcheck"], capture_output=True, text=True)
                if r.returncode != 0:
                    res[c] = (r.returncode, [l.strip().split(" (in")[0] for l in r.stdout.splitlines() if l.strip().startswith(("signature", "HARNESS"))][:3])
            print("%s rf%d tests=%s alarms=%s" % (prop, i, t.returncode == 0, res or "none"))
            if keep:
                d = os.path.join(VERIF, "seeded", "refactor-%s-%d" % (prop, i))
                os.makedirs(d, exist_ok=True)
                shutil.copy(patch, os.path.join(d, "patch.diff"))
                note = os.path.join(wt, "_out", "note%d.txt" % i)
                json.dump({"property": prop, "kind": "behaviour-preserving refactoring (must NOT alarm)",
                           "author_note": open(note).read() if os.path.exists(note) else "", "tests_pass": t.returncode == 0,
                           "alarms": {k: v[1] for k, v in res.items()}, "what_i_ran": "all 11 quick checks with --repo <scratch copy with patch>"},
                          open(os.path.join(d, "meta.json"), "w"), indent=1)
        finally:
            shutil.rmtree(tmp, ignore_errors=True)


if __name__ == "__main__":
    main()
