#!/venv/bin/python
"""rebase_seed.py <patch.diff> <old-base-commit>: re-base a stored seeded patch that no longer applies to /repo HEAD because a
later fix commit changed its context.  Applies it to <old-base-commit> in a scratch copy, three-way merges every touched file with
HEAD (git merge-file), runs the 45 tests, and rewrites the patch as a diff against HEAD.  Conflicts are reported, nothing is written."""
import os
import shutil
import subprocess
import sys
import tempfile


def sh(cmd, **kw):
    return subprocess.run(cmd, capture_output=True, text=True, **kw)


def main():
    patch, base = sys.argv[1], sys.argv[2]
    tmp = tempfile.mkdtemp(prefix="verif_rebase_")
    try:
        old, new = os.path.join(tmp, "old"), os.path.join(tmp, "new")
        shutil.copytree("/repo", old)
        shutil.copytree("/repo", new)
        assert sh(["git", "-C", old, "checkout", "-q", base]).returncode == 0
        a = sh(["git", "-C", old, "apply", patch])
        if a.returncode != 0:
            print("does not apply to", base, a.stderr[-300:])
            return 1
        files = sh(["git", "-C", old, "diff", "--name-only"]).stdout.split()
        deleted = sh(["git", "-C", old, "diff", "--name-only", "--diff-filter=D"]).stdout.split()
        for f in files:
            if f in deleted:
                os.remove(os.path.join(new, f))
                continue
            basef = os.path.join(tmp, "base_" + os.path.basename(f))
            open(basef, "w").write(sh(["git", "-C", old, "show", "%s:%s" % (base, f)]).stdout)
            r = sh(["git", "merge-file", os.path.join(new, f), basef, os.path.join(old, f)])
            if r.returncode != 0:
                print("CONFLICT in", f)
                return 1
        for f in sh(["git", "-C", old, "ls-files", "--others", "--exclude-standard"]).stdout.split():
            os.makedirs(os.path.dirname(os.path.join(new, f)), exist_ok=True)
            shutil.copy(os.path.join(old, f), os.path.join(new, f))
            sh(["git", "-C", new, "add", "-N", f])
        t = sh(["/venv/bin/python", "-m", "pytest", "-q", "-p", "no:cacheprovider", "tests"], cwd=new, env=dict(os.environ, PYTHONPATH=new))
        d = sh(["git", "-C", new, "diff"]).stdout
        if t.returncode != 0 or not d.strip():
            print("tests fail or empty diff after rebase", t.stdout[-200:])
            return 1
        open(patch, "w").write(d)
        print("rebased", patch, "(%d bytes; tests: %s)" % (len(d), t.stdout.strip().splitlines()[-1]))
        return 0
    finally:
        shutil.rmtree(tmp, ignore_errors=True)


if __name__ == "__main__":
    sys.exit(main())
