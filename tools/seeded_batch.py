#!/venv/bin/python
"""seeded_batch.py PROP WORKTREE [tier] : evaluate patch1..3 of a sub-agent and keep them under /verif/seeded/"""
import json, subprocess, sys, os
prop, wt = sys.argv[1].upper(), sys.argv[2]
tier = sys.argv[3] if len(sys.argv) > 3 else "quick"
tag = sys.argv[4] if len(sys.argv) > 4 else "seed"
for i in (1, 2, 3, 4, 5):
    if not os.path.exists(os.path.join(wt, "_out", "patch%d.diff" % i)):
        print(prop, "seed%d" % i, "missing")
        continue
    r = subprocess.run(["/venv/bin/python", os.path.join(os.path.dirname(os.path.abspath(__file__)), "seeded_eval.py"), prop, wt, str(i),
                        "--keep", "%s-%s%d" % (prop, tag, i), "--tier", tier], capture_output=True, text=True)
    try:
        d = json.loads(r.stdout)
        print(("%s " + tag + "%d valid=%s detected=%s rc=%s sigs=%s %s") % (prop, i, d.get("valid_seed"), d.get("detected"), d.get("check_rc"),
                                                                 [s.split(" (in")[0].replace("signature ", "") for s in d.get("signatures", [])[:3]], d.get("harness", [])[:1]))
    except Exception:
        print(prop, "seed%d" % i, "ERROR", (r.stdout + r.stderr)[-500:])
