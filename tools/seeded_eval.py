#!/venv/bin/python
"""Evaluate a seeded change produced by an independent sub-agent.
usage: seeded_eval.py <PROP> <worktree> <i> [--keep NAME]
 1. demo passes on the clean worktree, fails with the patch (run in the worktree, restored afterwards)
 2. the 45 tests pass with the patch
 3. the check for PROP (quick tier) run against a scratch copy of /repo with the patch applied
 With --keep, stores patch/demo/note/meta.json under /verif/seeded/NAME/."""
import json
import os
import shutil
import subprocess
import sys
import tempfile

PY = "/venv/bin/python"
VERIF = os.path.dirname(os.path.dirname(os.path.abspath(__file__)))


def sh(cmd, **kw):
    return subprocess.run(cmd, capture_output=True, text=True, **kw)


def main():
    prop, wt, i = sys.argv[1].upper(), sys.argv[2], sys.argv[3]
    keep = sys.argv[sys.argv.index("--keep") + 1] if "--keep" in sys.argv else None
    tier = sys.argv[sys.argv.index("--tier") + 1] if "--tier" in sys.argv else "quick"
    out = os.path.join(wt, "_out")
    patch, demo, note = [os.path.join(out, "%s%s.%s" % (n, i, e)) for n, e in (("patch", "diff"), ("demo", "py"), ("note", "txt"))]
    res = {"property": prop, "patch": patch}
    assert sh(["git", "-C", wt, "status", "--porcelain", "--untracked-files=no"]).stdout.strip() == "", "worktree not clean"
    # the worktree may be behind /repo's HEAD (fix commits made meanwhile): bring it to /repo's HEAD first
    head = sh(["git", "-C", "/repo", "rev-parse", "HEAD"]).stdout.strip()
    sh(["git", "-C", wt, "checkout", "-q", "--detach", head])
    env = dict(os.environ, PYTHONPATH=wt)
    r = sh([PY, demo], env=env, cwd=wt)
    res["demo_clean_rc"] = r.returncode
    a = sh(["git", "-C", wt, "apply", patch])
    res["applies"] = a.returncode == 0
    if a.returncode != 0:
        res["apply_err"] = a.stderr[-300:]
        print(json.dumps(res, indent=1))
        return 1
    try:
        r = sh([PY, demo], env=env, cwd=wt)
        res["demo_patched_rc"] = r.returncode
        res["demo_patched_tail"] = (r.stdout + r.stderr).strip().splitlines()[-3:]
        t = sh([PY, "-m", "pytest", "-q", "-p", "no:cacheprovider", "tests"], env=env, cwd=wt)
        res["tests_pass"] = t.returncode == 0
        res["tests_tail"] = t.stdout.strip().splitlines()[-1:] if t.stdout.strip() else []
    finally:
        sh(["git", "-C", wt, "checkout", "--", "."])
    tmp = tempfile.mkdtemp(prefix="verif_seed_")
    try:
        dst = os.path.join(tmp, "repo")
        shutil.copytree("/repo", dst, ignore=shutil.ignore_patterns(".git", "__pycache__", "*.egg-info"))
        p = sh(["patch", "-p1", "-s", "-i", patch], cwd=dst)
        assert p.returncode == 0, p.stdout + p.stderr
        cmd = [PY, os.path.join(VERIF, "check.py"), prop, "--repo", dst, "--no-evidence", "--tier", tier]
        c = sh(cmd)
        res["check_rc"] = c.returncode
        res["check_cmd"] = " ".join(cmd).replace(dst, "<scratch copy of /repo with patch applied>")
        res["signatures"] = [l.strip() for l in c.stdout.splitlines() if l.strip().startswith("signature")][:6]
        res["harness"] = [l[:200] for l in c.stdout.splitlines() if l.startswith("HARNESS")][:3]
        res["check_tail"] = c.stdout.strip().splitlines()[-1] if c.stdout.strip() else c.stderr[-200:]
    finally:
        shutil.rmtree(tmp, ignore_errors=True)
    res["valid_seed"] = res["demo_clean_rc"] == 0 and res.get("demo_patched_rc", 0) != 0 and res.get("tests_pass")
    res["detected"] = res["check_rc"] == 1
    print(json.dumps(res, indent=1))
    if keep:
        d = os.path.join(VERIF, "seeded", keep)
        os.makedirs(d, exist_ok=True)
        shutil.copy(patch, os.path.join(d, "patch.diff"))
        shutil.copy(demo, os.path.join(d, "demo.py"))
        notes = open(note).read() if os.path.exists(note) else ""
        meta = {"property": prop, "breaks": notes.strip(), "needs_to_manifest": "see 'breaks' (author's note)",
                "confirmed": {"demo_on_clean_tree_rc": res["demo_clean_rc"], "demo_with_patch_rc": res.get("demo_patched_rc"),
                              "existing_45_tests_pass_with_patch": res.get("tests_pass")},
                "what_i_ran": ["git apply patch.diff in a scratch worktree; demo.py; pytest tests; git checkout -- .", res["check_cmd"]],
                "check_result": {"exit": res["check_rc"], "detected": res["detected"], "signatures": res["signatures"], "tier": tier},
                "repo_head_when_evaluated": head, "origin": "independent sub-agent given only the property text and a scratch worktree"}
        json.dump(meta, open(os.path.join(d, "meta.json"), "w"), indent=1)
    return 0


if __name__ == "__main__":
    sys.exit(main())
