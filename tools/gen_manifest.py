#!/venv/bin/python
"""Regenerates /verif/MANIFEST.json from the table below (run after adding a check)."""
import json
import os

HERE = os.path.dirname(os.path.dirname(os.path.abspath(__file__)))
PY = "/venv/bin/python"

CHECKS = {
    "C07": dict(
        category="fault_enumeration", design_ref="DESIGN.md 5/C07",
        technique="deterministic simulation with fault injection: seeded command sequences against simulated SG_IO/iSCSI bindings with injected status/sense/ioctl faults; per-command oracle from the fault delivered",
        text="Seeded search over command sequences with status (all 256 bytes), sense and ioctl faults injected inside commands (also two faults inside one call, also on the attach INQUIRY) on both simulated transports, through direct execute (fresh and re-executed command objects) and every facade method, raw sense on/off, also inside with blocks; the batch is repeated under python -O; the status x transport x path x raw sub-space is enumerated completely in the thorough tier. Evidence, not proof: sequences are sampled.",
        note="Trusts the stub bindings' contract (DESIGN 4.3) and the independent t10 sense decoder; on SG_IO a non-CC failure status is only required to raise some exception."),
    "C08": dict(
        category="fault_enumeration", design_ref="DESIGN.md 5/C08",
        technique="deterministic simulation with fault injection: CHECK CONDITION faults whose sense payloads sweep the response-code x key x ASC/ASCQ x length space, delivered through the simulated SG_IO/iSCSI bindings; independent SPC sense decoder as oracle",
        text="Every payload is delivered as the sense of an injected CHECK CONDITION on a live simulated device and the resulting error is constructed, str()ed, print()ed (also with the print_data option), its key/ASC/ASCQ compared with an independent SPC decoder, and kept errors are judged again after later errors were built. The thorough tier enumerates all 65536 ASC/ASCQ pairs x 16 keys x 4 formats (4.2M payloads) and adds seeded payloads of every length 1-252; quick enumerates all pairs for one key per format.",
        note="Search dimension is the fault payload, not a schedule (stated in DESIGN 2). T10 wording is demanded only for 41 well-known codes; sgio stub truncates sense to the 32 bytes the library requests."),
    "C12": dict(
        category="exploration", design_ref="DESIGN.md 5/C12",
        technique="deterministic simulation: seeded block-command histories against an independently written sparse-disk target behind simulated SG_IO and iSCSI bindings; reference-model check after every command plus transport differential; status-fault configuration separate",
        text="Seeded histories (3-40 commands, boundary-biased LBAs up to 2**64-2, five block sizes, unique payloads; all READ CAPACITY(16) geometry fields varied; 12% on a writable MMC unit with READ/WRITE 10/12, 8% identity-only on units of any of the 32 device types) are executed through the real facade, command classes and both device classes against a target that decodes CDBs from SBC; after every command the read data, the target's disk, the arguments the target decoded and the reference model must agree and the two transports must behave identically (one facade per device or one facade re-pointed between them; fixed or descriptor format sense from the target; a faulted command must not look done). Sampling, not proof.",
        note="Trusts t10/targets.BlockLU and the stub bindings (iSCSI stub moves data according to the Task's direction/length, as on the wire). Transfer lengths above 2**17 blocks not explored."),
    "C15": dict(
        category="exploration", design_ref="DESIGN.md 5/C15",
        technique="deterministic simulation with fault injection: seeded event histories (execute / replug / unplug / plug / device returning under another kernel name / failing close / re-open refused once / node vanishing between two system calls of the library / facade built midway / second user of the node / CHECK CONDITION / ioctl error / close / with-exit, simulated time passing between the events) over a virtual /dev namespace with device nodes and symbolic links; handle model checked over the seam history after every event",
        text="The OS device node is simulated (inodes, handle generations, close faults of two flavours); SCSIDevice, ISCSIDevice and the facade's context manager run unmodified. After every event the oracle checks, from the recorded seam events, that no command went through a handle that is not on the node the named path (node or persistent symbolic link) leads to now, that superseded handles were closed, that a fresh handle was opened even when closing the stale one failed, that a vanished node is an error, that detection-off keeps the original handle, and at the end that every handle was released exactly once. Sampling of histories up to 25 events.",
        note="Node replacement happens between library calls, except the fault that unplugs the node right after an open() of the library succeeded; a node replaced between the library's stat and its ioctl is not generated. Trusts the virtual /dev model of inode and close semantics."),
    "C16": dict(
        category="exploration", design_ref="DESIGN.md 5/C16",
        technique="deterministic simulation: seeded attach / re-attach / follow-up histories over simulated devices of all 32 types x 8 qualifiers on both transports and on an application-defined device object, with CHECK CONDITION faults on the attach INQUIRY; seam-history and attach-model oracle, plus comparison with a history-free attach",
        text="All (type, qualifier, transport) combinations are attached alone (enumerated, complete) and seeded histories mix up to 4 devices with re-attach, node retyping and faulted attaches. Oracle: exactly one standard INQUIRY per attach at the seam, devicetype, the family's discriminating commands offered with T10 opcodes, no other family's commands, primary commands for every other type working end to end against a target that dispatches by T10 opcode, and the selected set equal to what a fresh attach selects (no dependence on history).",
        note="Family discriminators are named commands with T10 opcodes from t10/; for unrecognised types only the primary commands are demanded, as the property states."),
    "C09": dict(
        category="exploration", design_ref="DESIGN.md 5/C09, 4.6",
        technique="deterministic simulation: seeded baton-passing thread scheduler (sys.settrace line/call/return, optionally bytecode, pre-emption points inside pyscsi; random / PCT / boundary strategies) over programs of 1-3 caller threads, plus sequential histories, plus enumeration of every pre-emption point of shared-facade calls and of every command constructor; oracle = each operation's outcome equals the same operation run alone in a pristine process",
        text="Real threads, but which thread executes each source line of the library is the simulator's seeded decision, so every interleaving is replayable from one integer and the recorded switch list is minimised (ddmin) and replayed in a fresh process. Each operation (construct any of 42 classes - also twice from the same argument objects -, static encode/decode of own and foreign CDBs, build_cdb twice, data-in decode / round trip incl. VPD 83h, cmd.unmarshall() of the own buffer, facade calls on a private device; contention programs on the parameter-list classes) is compared with the same operation executed truly alone in its own pristine process; objects held by a thread must be byte-identical at the end. All ordered class pairs are enumerated sequentially in the thorough tier, as is every single pre-emption point of each of the 42 constructors with a second thread building the same class inside the window (every third point in the quick tier).",
        note="Line/call/return granularity (bytecode granularity in ~12% of runs), at most 3 threads, 8 ops per thread; threading.Lock/RLock are replaced by cooperative locks before import so a lock-based repair cannot deadlock the simulator."),
    "C13": dict(
        category="exploration", design_ref="DESIGN.md 5/C13",
        technique="deterministic simulation: one facade call per run against a scripted recording target behind a plain device object, SG_IO and iSCSI; exactly-once / identity / ordering checked over the recorded seam history; documented argument names read from the docstrings at check time",
        text="Histories of 1-4 facade calls on one re-attached facade: every facade method x every command set that defines it x subsets of the documented optional arguments x boundary-biased values x device-provided data with a per-call nonce; a fifth of the calls on real device classes is failed by the device and must still be handed over exactly once. The history of the call at the seam must show exactly one hand-over of the very command object and buffers the caller gets back, the attached set's opcode/service action, every supplied argument and every omitted default at the field the standard assigns, and a result equal to the class's own decode of the final buffer (and different from the decode of the untouched buffer). Enumerates method x set x {none, each, all optionals}; the rest is seeded sampling.",
        note="Layouts and response encoders are the independent t10/ transcription; the opcode is compared with the attached set's own entry (C14 is not claimed); decoded values are not judged (C04)."),
    "C17": dict(
        category="exploration", design_ref="DESIGN.md 5/C17",
        technique="deterministic simulation: invalid requests mixed into live command histories on simulated devices; oracle = specific exception + no event at any seam + unchanged target state; 256 opcode values enumerated",
        text="Histories of valid facade calls and invalid requests of the five classes the property names (block size 0 incl. ATA byte_block/t_type, opcodes without fixed CDB length, unknown PR IN service actions, EXTENDED COPY unknown keys/type codes for SPC-4 and SPC-5, inconsistent TransportIDs) run against a live simulated target; for each invalid request the seam log between request and exception must be empty and the target's state digest unchanged. All 256 opcode values are enumerated through init_cdb and a constructor.",
        note="Exception classes minted per command class are compared by name. Residue of refused constructions in shared state is C09's."),
    "C11": dict(
        category="exploration", design_ref="DESIGN.md 5/C11, 4.7",
        technique="deterministic simulation with fault injection: corrupt_datain / sense_payload faults applied to a live simulated target's well-formed responses (biased to embedded length/count fields), deterministic step meter (sys.settrace line events) as bounded-liveness oracle",
        text="Bounded liveness: every facade call and every direct decode of the corrupted bytes must return or raise within 20000 + 400*len(buffer) source-line steps of library code, a budget about 4x the steepest honest decode of corrupt data (one descriptor per byte), so a non-terminating loop is a reproducible budget violation (not a wall-clock kill) and a merely slower decoder is not. Seeded corruption of every data-in format incl. all PR IN service actions, VPD pages, READ ELEMENT STATUS with volume tags, READ CD layouts; the sense-code space is swept under the meter. Targets that keep answering the same way (UNIT ATTENTION / BUSY for ever, an unsupported operation code) bound the commands per call; a sample of runs polls one command 40 times and bounds what library allocation sites retain.",
        note="Sampling of a 2**(8n) space: the bias towards zero/maximal/inconsistent length fields is what finds loops; what decoders return for corrupt data is not judged. Buffers up to 16 KiB."),
    "C18": dict(
        category="exploration", design_ref="DESIGN.md 5/C18",
        technique="model-based simulation of operation histories (no faults, no schedule: the degenerate case, stated in DESIGN 2): seeded add/remove/lookup/keys histories on several live Enums compared step by step with a dict reference model",
        text="Histories of up to 30 operations on up to 4 Enums alive at once, values of many kinds incl. equal values on different names, OpCode objects and non-identifier names; after every operation every live Enum is compared with its own dict model (names in order, values, reverse lookup of every present and of absent values, KeyError exactly where the model says), which also shows that operating on one Enum never changes another.",
        note="Names starting with '__', type/Enum API attribute names, callable values and NaN are excluded because the property's wording does not fix their behaviour."),
    "C19": dict(
        category="fault_enumeration", design_ref="DESIGN.md 5/C19",
        technique="deterministic simulation with fault injection at the installation seam: each run imports the library freshly under one of the 4 presence combinations of fake sgio/iscsi bindings (absence = injected fault), from the source tree or from the layout `packages = find:` installs, then drives init_device/constructors with device strings; oracle over the seam history (no open/stat/connect before a refusal)",
        text="The four binding configurations x 17 device strings x rw x {init_device, SCSIDevice, ISCSIDevice} x initiator-name variants are enumerated completely in both tiers and random strings are added; every module under pyscsi is imported, every command class built/encoded/decoded and the facade driven over plain device objects of every command-set family in each configuration. For refused requests the seam log must be empty; for accepted ones it must show exactly one open/connect on exactly the requested path/URL with the requested mode and initiator name.",
        note="Absence is simulated with sys.modules[name]=None (ModuleNotFoundError); a binding that is installed but fails to load is outside the property's four combinations and not judged; the real bindings' behaviour for malformed paths/URLs is stubbed leniently."),
}

NOT_APPLICABLE = {
    "C01": "pure function of one call's arguments (class, opcode table entry, argument tuple): no schedule, fault, peer behaviour or history can change the CDB; deciding it is input enumeration against the standards, not simulation (DESIGN 6). C13/C12 observe layouts of facade-reachable commands as a by-product.",
    "C02": "encode/decode inverse for one class is a pure function of its input; its dependence on other commands or threads is C09 and is decided there (DESIGN 6).",
    "C03": "relation between two outputs (buffer lengths, CDB length fields) of one constructor call: pure; no interleaving, fault or history involved (DESIGN 6).",
    "C04": "unmarshall_datain of a well-formed buffer is a pure function of the buffer; needs response generation from the standards (property-based testing), not simulation (DESIGN 6).",
    "C05": "parameter-list marshalling is a pure function of the parameter dictionary (DESIGN 6).",
    "C06": "build/parse round trip is library-internal and pure; no peer, schedule or fault (DESIGN 6).",
    "C10": "algebraic laws of four stateless converter functions: pure (DESIGN 6).",
    "C14": "static constant tables compared with T10 assignments; nothing the simulator controls influences them (DESIGN 6). The refusal of opcodes without fixed CDB length is checked as part of C17.",
}


def main():
    checks = []
    for pid in sorted(CHECKS):
        c = CHECKS[pid]
        checks.append({
            "property_id": pid,
            "quick_cmd": "%s /verif/check.py %s --tier quick" % (PY, pid),
            "thorough_cmd": "%s /verif/check.py %s --tier thorough" % (PY, pid),
            "evidence_file": "/verif/evidence/%s.json" % pid,
            "replay_cmd_template": "%s /verif/check.py %s --replay {path}" % (PY, pid),
            "engine": "sim",
            "level_claimed": {"category": c["category"], "text": c["text"], "design_ref": c["design_ref"]},
            "level_note": c["note"],
            "technique": c["technique"],
        })
    claimed = set(CHECKS)
    na = [{"property_id": p, "reason": r} for p, r in sorted(NOT_APPLICABLE.items())]
    pending = [l for l in (json.loads(x)["id"] for x in open(os.path.join(HERE, "properties.jsonl"))) if l not in claimed and l not in NOT_APPLICABLE]
    for p in pending:
        na.append({"property_id": p, "reason": "claimed in DESIGN.md; the check is not built yet in this commit, so it is not claimed here (work in progress, not a judgement of applicability)"})
    m = {
        "version": 1,
        "setup_cmd": "%s -c \"import sys; sys.path.insert(0,'/verif'); import sim.core, sim.seams, t10.targets; print('verif framework ok (pure python, nothing to build)')\"" % PY,
        "hooks": {
            "guard": "PYSCSI_VERIF",
            "enable": "no hooks exist: the simulator uses the library's own seams (optional `import sgio`/`import iscsi`, builtins.open, os.stat, socket.gethostname) from outside; PYSCSI_VERIF is reserved and unused",
            "baseline_off_cmd": "cd /repo && /venv/bin/python -m pytest -ra -q -p no:cacheprovider --timeout=900 --continue-on-collection-errors",
            "source_commits": [],
            "add_only": True,
        },
        "engines": [{
            "name": "sim", "path": "/verif/sim",
            "serves_properties": sorted(claimed),
            "kind_free_text": "deterministic simulation with fault injection: fork-per-run from a pristine template, seeded program generator (sha256(prop:VERIF_SEED:i)), fake sgio/iscsi bindings and virtual /dev, independent T10 target models (t10/), baton thread scheduler on sys.settrace, step meter, ddmin minimiser, replay files",
        }],
        "checks": checks,
        "not_applicable": na,
        "notes": "exit 0 held / 1 VIOLATION / 2 HARNESS-ERROR (never a verdict). Known findings in /verif/KNOWN_FINDINGS.txt. VERIF_SEED selects the batch of seeded programs.",
    }
    with open(os.path.join(HERE, "MANIFEST.json"), "w") as f:
        json.dump(m, f, indent=1)
    print("MANIFEST.json: %d checks, %d not_applicable" % (len(checks), len(na)))


if __name__ == "__main__":
    main()
