"""Runner: seed derivation, fork-per-run execution from a pristine template,
a fork-based worker pool, minimisation, replay files, known findings,
evidence.  One integer (VERIF_SEED) decides every generated program."""

import copy
import hashlib
import json
import os
import random
import resource
import select
import signal
import subprocess
import sys
import time
from time import monotonic as _wall      # the real clock, bound before sim.seams replaces time.monotonic for the library
import traceback

VERIF_DIR = os.path.dirname(os.path.dirname(os.path.abspath(__file__)))
REPLAY_DIR = os.path.join(VERIF_DIR, "replays")
EVIDENCE_DIR = os.path.join(VERIF_DIR, "evidence")
KNOWN_FILE = os.path.join(VERIF_DIR, "KNOWN_FINDINGS.txt")

RUN_WALL_TIMEOUT = 120.0     # per run, harness bugs only (library hangs are caught by step budgets)
MEM_LIMIT = 3 << 30


def run_seed(prop, verif_seed, i):
    h = hashlib.sha256(("%s:%s:%s" % (prop, verif_seed, i)).encode()).digest()
    return int.from_bytes(h[:8], "big")


def sig_of(v):
    return "%s/%s/%s" % (v["oracle"], v.get("where", "-"), v.get("detail", "-"))


# ------------------------------------------------------------------ fork per run
def fork_run(fn, arg, timeout=RUN_WALL_TIMEOUT):
    """Execute fn(arg) in a forked child of the current (template) process and
    return its JSON-able result.  {'harness_error': ...} on any failure of the
    harness itself (exception outside the oracle, timeout, crash)."""
    r, w = os.pipe()
    sys.stdout.flush()
    sys.stderr.flush()
    pid = os.fork()
    if pid == 0:
        code = 0
        try:
            os.close(r)
            try:
                resource.setrlimit(resource.RLIMIT_AS, (MEM_LIMIT, MEM_LIMIT))
            except Exception:
                pass
            # the cyclic garbage collector runs at allocation counts inherited from the forking process and may finalise
            # suspended library generators inside traced code: a source of nondeterminism (it shifted scheduler step
            # indexes between the checking process and a fresh replay process).  Runs are short: no cyclic GC inside a run.
            import gc
            gc.disable()
            try:
                res = fn(arg)
                data = json.dumps(res).encode()
            except MemoryError:
                data = json.dumps({"harness_error": "MemoryError in run (RLIMIT_AS %d)" % MEM_LIMIT, "memory": True}).encode()
            except BaseException:
                data = json.dumps({"harness_error": traceback.format_exc()}).encode()
            off = 0
            while off < len(data):
                off += os.write(w, data[off:off + 65536])
        except BaseException:
            code = 3
        finally:
            os._exit(code)
    os.close(w)
    chunks = []
    deadline = _wall() + timeout
    timed_out = False
    while True:
        left = deadline - _wall()
        if left <= 0:
            timed_out = True
            break
        rl, _, _ = select.select([r], [], [], min(left, 5.0))
        if not rl:
            continue
        b = os.read(r, 1 << 20)
        if not b:
            break
        chunks.append(b)
    os.close(r)
    if timed_out:
        try:
            os.kill(pid, signal.SIGKILL)
        except ProcessLookupError:
            pass
    _, st = os.waitpid(pid, 0)
    if timed_out:
        return {"harness_error": "wall timeout %.0fs in run" % timeout, "timeout": True}
    raw = b"".join(chunks)
    if not raw:
        return {"harness_error": "run child died without a result (wait status %d)" % st}
    try:
        return json.loads(raw)
    except Exception:
        return {"harness_error": "unparsable run result (wait status %d): %r" % (st, raw[:200])}


# ------------------------------------------------------------------ program source
def program_for(prop, index, verif_seed, tier):
    """index: int (seeded) or 'e<k>' (k-th enumerated program)."""
    if isinstance(index, str) and index.startswith("e"):
        return prop.enumerated(int(index[1:]), tier)
    rs = run_seed(prop.ID, verif_seed, index)
    prog = prop.generate(random.Random(rs), index, tier)
    prog["run_seed"] = rs
    return prog


def all_indices(prop, tier, count_override=None):
    n = count_override if count_override is not None else prop.COUNTS[tier]
    idx = list(range(n))
    ne = prop.enumerated_count(tier) if hasattr(prop, "enumerated_count") else 0
    if count_override is not None and hasattr(prop, "enumerated_count"):
        ne = min(ne, count_override)
    idx += ["e%d" % k for k in range(ne)]
    return idx


# ------------------------------------------------------------------ worker pool
def _worker(prop, indices, verif_seed, tier, deadline, keep_digests_for):
    agg = {"n": 0, "digests": set(), "nt_digests": set(), "stats": {}, "samples": [],
           "viol": {}, "harness": [], "index_digests": {}, "incomplete": 0, "aux": set()}
    for pos, index in enumerate(indices):
        if _wall() > deadline:
            agg["incomplete"] = len(indices) - pos
            break
        try:
            prog = program_for(prop, index, verif_seed, tier)
        except Exception:
            agg["harness"].append({"index": index, "error": traceback.format_exc()})
            continue
        res = fork_run(prop.execute, prog)
        agg["n"] += 1
        if "harness_error" in res:
            if len(agg["harness"]) < 5:
                agg["harness"].append({"index": index, "error": res["harness_error"], "program": prog})
            else:
                agg["harness"].append({"index": index, "error": res["harness_error"][:200]})
            continue
        d = res["digest"][:16]
        agg["digests"].add(d)
        if res.get("nontrivial"):
            agg["nt_digests"].add(d)
        if res.get("aux"):
            agg["aux"].add(res["aux"][:16])
        if index in keep_digests_for:
            agg["index_digests"][str(index)] = res["digest"]
        for k, v in res.get("stats", {}).items():
            agg["stats"][k] = agg["stats"].get(k, 0) + v
        if len(agg["samples"]) < 2 and res.get("nontrivial"):
            agg["samples"].append({"index": index, "program": prog, "outcome": res.get("summary")})
        for v in res.get("violations", []):
            s = sig_of(v)
            cur = agg["viol"].get(s)
            key = _index_key(index)
            if cur is None:
                agg["viol"][s] = {"count": 1, "index": index, "key": key, "program": prog, "violation": v}
            else:
                cur["count"] += 1
                if key < cur["key"]:
                    cur.update(index=index, key=key, program=prog, violation=v)
    agg["digests"] = sorted(agg["digests"])
    agg["nt_digests"] = sorted(agg["nt_digests"])
    agg["aux"] = sorted(agg["aux"])
    return agg


def _index_key(index):
    if isinstance(index, str):
        return (1, int(index[1:]))
    return (0, index)


def run_pool(prop, indices, verif_seed, tier, workers, wall_cap, keep_digests_for=()):
    """Static striping: worker w gets indices[w::workers].  The result for an
    index does not depend on which worker ran it (fork per run)."""
    deadline = _wall() + wall_cap
    keep = set(keep_digests_for)
    procs = []
    sys.stdout.flush()
    for w in range(workers):
        mine = indices[w::workers]
        r, wr = os.pipe()
        pid = os.fork()
        if pid == 0:
            code = 0
            try:
                os.close(r)
                for p in procs:
                    try:
                        os.close(p[1])
                    except OSError:
                        pass
                try:
                    agg = _worker(prop, mine, verif_seed, tier, deadline, keep)
                except BaseException:
                    agg = {"n": 0, "digests": [], "nt_digests": [], "stats": {}, "samples": [], "viol": {}, "aux": [],
                           "harness": [{"index": None, "error": "worker crashed: " + traceback.format_exc()}],
                           "index_digests": {}, "incomplete": len(mine)}
                data = json.dumps(agg).encode()
                off = 0
                while off < len(data):
                    off += os.write(wr, data[off:off + 65536])
            except BaseException:
                code = 3
            finally:
                os._exit(code)
        os.close(wr)
        procs.append((pid, r, len(mine)))
    bufs = {r: [] for _, r, _ in procs}
    open_fds = set(bufs)
    hard_deadline = deadline + RUN_WALL_TIMEOUT + 60
    while open_fds:
        left = hard_deadline - _wall()
        if left <= 0:
            break
        rl, _, _ = select.select(list(open_fds), [], [], min(left, 5.0))
        for fd in rl:
            b = os.read(fd, 1 << 20)
            if b:
                bufs[fd].append(b)
            else:
                open_fds.discard(fd)
    results = []
    for pid, r, n in procs:
        if r in open_fds:
            try:
                os.kill(pid, signal.SIGKILL)
            except ProcessLookupError:
                pass
        os.close(r)
        os.waitpid(pid, 0)
        raw = b"".join(bufs[r])
        try:
            results.append(json.loads(raw))
        except Exception:
            results.append({"n": 0, "digests": [], "nt_digests": [], "stats": {}, "samples": [], "viol": {}, "aux": [],
                            "harness": [{"index": None, "error": "worker produced no result (%d bytes)" % len(raw)}],
                            "index_digests": {}, "incomplete": n})
    return merge(results)


def merge(results):
    out = {"n": 0, "digests": set(), "nt_digests": set(), "stats": {}, "samples": [], "viol": {},
           "harness": [], "index_digests": {}, "incomplete": 0, "aux": set()}
    for a in results:
        out["n"] += a["n"]
        out["digests"].update(a["digests"])
        out["nt_digests"].update(a["nt_digests"])
        out["aux"].update(a.get("aux", []))
        for k, v in a["stats"].items():
            out["stats"][k] = out["stats"].get(k, 0) + v
        out["samples"] += a["samples"]
        out["harness"] += a["harness"]
        out["index_digests"].update(a["index_digests"])
        out["incomplete"] += a.get("incomplete", 0)
        for s, v in a["viol"].items():
            v["key"] = tuple(v["key"])
            cur = out["viol"].get(s)
            if cur is None:
                out["viol"][s] = v
            else:
                cnt = cur["count"] + v["count"]
                if v["key"] < cur["key"]:
                    out["viol"][s] = v
                out["viol"][s]["count"] = cnt
    out["samples"].sort(key=lambda s: _index_key(s["index"]))
    return out


# ------------------------------------------------------------------ minimisation
def has_sig(prop, prog, sig):
    res = fork_run(prop.execute, prog)
    if "harness_error" in res:
        return False, res
    for v in res.get("violations", []):
        if sig_of(v) == sig:
            return True, res
    return False, res


def ddmin_list(items, test):
    """classic ddmin: smallest sublist (order kept) for which test(sublist)"""
    n = 2
    while len(items) >= 2:
        chunk = max(1, len(items) // n)
        subsets = [items[i:i + chunk] for i in range(0, len(items), chunk)]
        reduced = False
        for i in range(len(subsets)):
            comp = [x for j, s in enumerate(subsets) if j != i for x in s]
            if comp and test(comp):
                items = comp
                n = max(n - 1, 2)
                reduced = True
                break
        if not reduced:
            for s in subsets:
                if len(s) < len(items) and test(s):
                    items = s
                    n = 2
                    reduced = True
                    break
        if not reduced:
            if n >= len(items):
                break
            n = min(len(items), n * 2)
    if len(items) == 1 and test([]):
        return []
    return items


def minimise(prop, prog, sig, budget=None):
    """Shrink ops (ddmin), then property-specific simplifications, keeping the
    same violation signature.  Returns (program, result)."""
    budget = budget or getattr(prop, "MINIMISE_BUDGET", 400)
    calls = [0]
    best = copy.deepcopy(prog)
    ok, best_res = has_sig(prop, best, sig)
    if not ok:
        return None, best_res

    def test_ops(ops):
        if calls[0] >= budget:
            return False
        calls[0] += 1
        cand = copy.deepcopy(best)
        cand["ops"] = copy.deepcopy(ops)
        if hasattr(prop, "repair"):
            cand = prop.repair(cand)
            if cand is None:
                return False
        ok, _ = has_sig(prop, cand, sig)
        return ok

    if hasattr(prop, "presimplify"):
        # cheap-first: simplifications that make every later candidate run cheaper (e.g. smaller buffers => smaller step budgets)
        for cand in prop.presimplify(copy.deepcopy(best)):
            if calls[0] >= budget:
                break
            calls[0] += 1
            ok, _ = has_sig(prop, cand, sig)
            if ok:
                best = cand
                break
    if isinstance(best.get("ops"), list) and len(best["ops"]) > 1:
        keep = getattr(prop, "PINNED_OPS", 0)
        head, tail = best["ops"][:keep], best["ops"][keep:]
        tail = ddmin_list(tail, lambda ops: test_ops(head + ops))
        best["ops"] = head + tail
        if hasattr(prop, "repair"):
            best = prop.repair(best) or best
    if getattr(prop, "MINIMISE_SCHEDULE", False):
        ok, r0 = has_sig(prop, best, sig)
        if ok and r0.get("schedule"):
            cand = copy.deepcopy(best)
            cand["schedule"] = r0["schedule"]
            ok2, _ = has_sig(prop, cand, sig)
            if ok2:
                best = cand
                sbudget = [300]

                def test_sched(sw):
                    if sbudget[0] <= 0:
                        return False
                    sbudget[0] -= 1
                    c = copy.deepcopy(best)
                    c["schedule"] = best["schedule"][:1] + copy.deepcopy(sw)
                    return has_sig(prop, c, sig)[0]

                rest = ddmin_list(best["schedule"][1:], test_sched)
                best["schedule"] = best["schedule"][:1] + rest
    # property-specific simplifications, greedy until fixpoint
    if hasattr(prop, "simplify"):
        progress = True
        rounds = 0
        while progress and calls[0] < budget and rounds < 20:
            progress = False
            rounds += 1
            for cand in prop.simplify(copy.deepcopy(best)):
                if calls[0] >= budget:
                    break
                calls[0] += 1
                ok, _ = has_sig(prop, cand, sig)
                if ok:
                    best = cand
                    progress = True
                    break
    ok, res = has_sig(prop, best, sig)
    if not ok:
        return None, res
    return best, res


# ------------------------------------------------------------------ known findings
def load_known():
    known, fixed = {}, []
    if os.path.exists(KNOWN_FILE):
        for line in open(KNOWN_FILE):
            line = line.strip()
            if line.startswith("known:"):
                parts = line[len("known:"):].split(None, 2)
                kv = dict(p.split("=", 1) for p in parts[:2] if "=" in p)
                if "property" in kv and "sig" in kv:
                    known[(kv["property"], kv["sig"])] = parts[2] if len(parts) > 2 else ""
            elif line.startswith("fixed:"):
                fixed.append(line)
    return known, fixed


# ------------------------------------------------------------------ main
def py_flags():
    """interpreter options that are part of a run's configuration (python -O strips assert statements)"""
    return ["-O"] if sys.flags.optimize else []


def ensure_hashseed():
    if os.environ.get("PYTHONHASHSEED") is None:
        env = dict(os.environ)
        env["PYTHONHASHSEED"] = "0"
        os.execve(sys.executable, [sys.executable] + py_flags() + sys.argv, env)


def write_replay(prop, verif_seed, tier, info, prog, res, original_ops):
    os.makedirs(REPLAY_DIR, exist_ok=True)
    v = None
    for x in res.get("violations", []):
        if sig_of(x) == info["sig"]:
            v = x
            break
    name = "%s-%s-%s-%s.json" % (prop.ID, verif_seed, info["index"], hashlib.sha256(info["sig"].encode()).hexdigest()[:8])
    path = os.path.join(REPLAY_DIR, name)
    doc = {
        "property": prop.ID, "verif_seed": verif_seed, "tier": tier, "run": info["index"],
        "run_seed": prog.get("run_seed"), "signature": info["sig"], "violation": v,
        "program": prog, "schedule": res.get("schedule"), "event_digest": res.get("digest"),
        "original_ops": original_ops, "minimised_ops": len(prog.get("ops", [])) if isinstance(prog.get("ops"), list) else None,
        "events_tail": res.get("events_tail"), "python_optimize": int(sys.flags.optimize),
    }
    with open(path, "w") as f:
        # no sort_keys: the order of keys in argument dictionaries is part of the program (the library iterates over them,
        # and under the thread scheduler the order of its source-line steps must be reproduced exactly)
        json.dump(doc, f, indent=1)
    return path


def replay_file(prop, path):
    doc = json.load(open(path))
    prog = doc["program"]
    if doc.get("schedule") is not None and "schedule" not in prog:
        prog["schedule"] = doc["schedule"]
    res = fork_run(prop.execute, prog)
    return doc, res


def check_main(prop, argv=None):
    import argparse
    ap = argparse.ArgumentParser()
    ap.add_argument("--tier", default=os.environ.get("VERIF_TIER", "quick"), choices=["quick", "thorough"])
    ap.add_argument("--replay")
    ap.add_argument("--repo", default=os.environ.get("VERIF_REPO", "/repo"))
    ap.add_argument("--workers", type=int, default=int(os.environ.get("VERIF_WORKERS", "0")) or min(16, os.cpu_count() or 1))
    ap.add_argument("--count", type=int)
    ap.add_argument("--digests", help="a:b -> print JSON of event digests of seeded runs a..b-1 and exit")
    ap.add_argument("--no-selfcheck", action="store_true")
    ap.add_argument("--wall-cap", type=float)
    ap.add_argument("--no-evidence", action="store_true")
    ap.add_argument("--no-optpass", action="store_true", help="skip the second pass under `python -O` (properties with ALSO_OPTIMIZED)")
    ap.add_argument("--dump-digests", help="write the sorted set of event digests of this batch to FILE (determinism self-test)")
    args = ap.parse_args(argv)
    verif_seed = int(os.environ.get("VERIF_SEED", "0"))
    tier = args.tier
    t0 = _wall()

    prop.setup(args.repo)

    if args.digests:
        a, b = [int(x) for x in args.digests.split(":")]
        out = {}
        for i in range(a, b):
            res = fork_run(prop.execute, program_for(prop, i, verif_seed, tier))
            out[str(i)] = res.get("digest") or ("ERR:" + res.get("harness_error", "?")[:80])
        print(json.dumps(out))
        return 0

    if args.replay:
        if json.load(open(args.replay)).get("python_optimize") and not sys.flags.optimize:
            # the run was made under `python -O` (assert statements stripped): replay it under the same interpreter options
            os.execve(sys.executable, [sys.executable, "-O"] + sys.argv, dict(os.environ))
        doc, res = replay_file(prop, args.replay)
        if "harness_error" in res:
            print("HARNESS-ERROR property=%s replay=%s\n%s" % (prop.ID, args.replay, res["harness_error"]))
            return 2
        sigs = [sig_of(v) for v in res.get("violations", [])]
        same = doc.get("signature") in sigs
        print("replay %s: recorded signature %s -> %s; event digest %s (recorded %s)" % (
            args.replay, doc.get("signature"), "REPRODUCED" if same else "not reproduced",
            res.get("digest"), doc.get("event_digest")))
        for v in res.get("violations", []):
            print("  violation %s: expected %s; actual %s" % (sig_of(v), v.get("expected"), v.get("actual")))
        if sigs:
            print("VIOLATION property=%s replay=%s" % (prop.ID, args.replay))
            return 1
        return 0

    print("VERIF_SEED=%d property=%s tier=%s workers=%d repo=%s" % (verif_seed, prop.ID, tier, args.workers, args.repo))
    sys.stdout.flush()
    indices = all_indices(prop, tier, args.count)
    wall_cap = args.wall_cap or float(os.environ.get("VERIF_WALL_CAP", "0")) or (900.0 if tier == "quick" else 6 * 3600.0)
    nseeded = sum(1 for i in indices if not isinstance(i, str))
    det_n = min(24 if tier == "quick" else 64, nseeded)
    agg = run_pool(prop, indices, verif_seed, tier, args.workers, wall_cap, keep_digests_for=range(det_n))
    t_explore = _wall() - t0
    if args.dump_digests:
        with open(args.dump_digests, "w") as f:
            json.dump(sorted(agg["digests"]), f)

    exit_code = 0
    harness_msgs = []
    if agg["harness"]:
        exit_code = 2
        for h in agg["harness"][:5]:
            harness_msgs.append("HARNESS-ERROR property=%s run=%s: %s" % (prop.ID, h.get("index"), h["error"].strip()[-1500:]))

    # determinism spot check: same seeds, fresh interpreter, other hash seed, one process
    det = {"checked": 0, "mismatches": 0}
    if not args.no_selfcheck and det_n and exit_code == 0:
        env = dict(os.environ)
        env["PYTHONHASHSEED"] = "1"
        env["VERIF_SEED"] = str(verif_seed)
        cmd = [sys.executable] + py_flags() + [os.path.abspath(sys.argv[0])] + [a for a in sys.argv[1:2]] + [
            "--tier", tier, "--repo", args.repo, "--digests", "0:%d" % det_n]
        try:
            outp = subprocess.run(cmd, env=env, capture_output=True, text=True, timeout=600)
            other = json.loads(outp.stdout.strip().splitlines()[-1])
            for k, dg in other.items():
                det["checked"] += 1
                if agg["index_digests"].get(k) != dg:
                    det["mismatches"] += 1
                    harness_msgs.append("HARNESS-ERROR property=%s nondeterminism: run %s digest %s vs %s (fresh interpreter, PYTHONHASHSEED=1)" % (
                        prop.ID, k, agg["index_digests"].get(k), dg))
        except Exception as e:
            det["mismatches"] += 1
            harness_msgs.append("HARNESS-ERROR property=%s determinism self-check failed to run: %r" % (prop.ID, e))
        if det["mismatches"]:
            exit_code = 2

    # violations: minimise, replay-verify, classify against known findings
    known, _fixed = load_known()
    lines = []
    known_hit = []
    extra_sigs = []
    n_viol = 0
    sigs = sorted(agg["viol"], key=lambda s: agg["viol"][s]["key"])
    for n, s in enumerate(sigs):
        info = agg["viol"][s]
        info["sig"] = s
        prog = info["program"]
        orig_ops = len(prog.get("ops", [])) if isinstance(prog.get("ops"), list) else None
        if (prop.ID, s) in known:
            known_hit.append(s)
            lines.append("KNOWN-FINDING: property=%s %s (%s; seen in %d runs, first run %s)" % (
                prop.ID, known[(prop.ID, s)], s, info["count"], info["index"]))
            continue
        minimised, res = (None, None)
        if n_viol >= 12:
            # enough replay files for one batch: further signatures are listed, not minimised
            extra_sigs.append(s)
            continue
        if n < getattr(prop, "MAX_MINIMISED", 12):
            minimised, res = minimise(prop, prog, s)
        if minimised is None:
            ok, res = has_sig(prop, prog, s)
            if not ok:
                exit_code = 2
                harness_msgs.append("HARNESS-ERROR property=%s violation %s of run %s did not reproduce on re-execution: %s" % (
                    prop.ID, s, info["index"], (res or {}).get("harness_error", "no such signature")))
                continue
            minimised = prog
        path = write_replay(prop, verif_seed, tier, info, minimised, res, orig_ops)
        # replay the file in a fresh process; it must fail the same way
        rp = subprocess.run([sys.executable] + py_flags() + [os.path.abspath(sys.argv[0]), sys.argv[1], "--replay", path, "--repo", args.repo],
                            capture_output=True, text=True, timeout=600, env=dict(os.environ, PYTHONHASHSEED="0"))
        if rp.returncode != 1 or "REPRODUCED" not in rp.stdout:
            exit_code = 2
            harness_msgs.append("HARNESS-ERROR property=%s replay %s did not reproduce in a fresh process (rc=%d): %s" % (
                prop.ID, path, rp.returncode, rp.stdout[-500:] + rp.stderr[-500:]))
            continue
        n_viol += 1
        v = info["violation"]
        lines.append("VIOLATION property=%s replay=%s" % (prop.ID, path))
        lines.append("  signature %s (in %d runs; first run %s; ops %s -> %s)" % (
            s, info["count"], info["index"], orig_ops, len(minimised.get("ops", [])) if isinstance(minimised.get("ops"), list) else None))
        lines.append("  expected: %s" % v.get("expected"))
        lines.append("  actual:   %s" % v.get("actual"))
    if extra_sigs:
        lines.append("  (+%d further violation signature(s) in this batch, not minimised: %s%s)" % (
            len(extra_sigs), ", ".join(extra_sigs[:6]), " ..." if len(extra_sigs) > 6 else ""))
    if n_viol and exit_code == 0:
        exit_code = 1

    # second pass under `python -O`: the interpreter configuration in which assert statements do not exist.  A third of the seeded
    # runs and the whole enumerated part; its violations come with their own replay files (which record the option)
    optpass = {"ran": False}
    if getattr(prop, "ALSO_OPTIMIZED", False) and not sys.flags.optimize and not args.no_optpass and not args.count and exit_code == 0:
        cmd = [sys.executable, "-O", os.path.abspath(sys.argv[0]), sys.argv[1], "--tier", tier, "--repo", args.repo, "--no-evidence",
               "--no-selfcheck", "--workers", str(args.workers), "--count", str(max(nseeded // 3, 1))]
        try:
            op_ = subprocess.run(cmd, capture_output=True, text=True, timeout=wall_cap,
                                 env=dict(os.environ, PYTHONHASHSEED="0", VERIF_SEED=str(verif_seed)))
            out_lines = op_.stdout.strip().splitlines()
            optpass = {"ran": True, "exit": op_.returncode, "summary": out_lines[-1] if out_lines else ""}
            if op_.returncode != 0:
                for l in out_lines:
                    if l.startswith(("VIOLATION", "KNOWN-FINDING", "HARNESS-ERROR", "  ")):
                        (lines if not l.startswith("HARNESS") else harness_msgs).append(l if not l.startswith("  ") else l + "   [python -O pass]")
                if op_.returncode == 1:
                    n_viol += sum(1 for l in out_lines if l.startswith("VIOLATION"))
                    if exit_code == 0:
                        exit_code = 1
                else:
                    exit_code = 2
                    if not any(l.startswith("HARNESS") for l in out_lines):
                        harness_msgs.append("HARNESS-ERROR property=%s the python -O pass ended with exit %d: %s" % (prop.ID, op_.returncode, (op_.stdout + op_.stderr)[-400:]))
        except Exception as e:  # noqa
            exit_code = 2
            harness_msgs.append("HARNESS-ERROR property=%s the python -O pass failed to run: %r" % (prop.ID, e))

    wall = _wall() - t0
    # evidence
    if not args.no_evidence:
        os.makedirs(EVIDENCE_DIR, exist_ok=True)
        stats = agg["stats"]
        cov = {
            "evaluations": agg["n"],
            "distinct_nontrivial": len(agg["nt_digests"]),
            "rule": prop.RULE,
            "samples": agg["samples"][:3] or [{"note": "no non-trivial run in this batch"}],
            "exhaustive": False,
            "distinct_event_digests": len(agg["digests"]),
            "distinct_" + getattr(prop, "AUX_NAME", "aux"): len(agg["aux"]) if getattr(prop, "AUX_NAME", None) else None,
            "seeded_runs": nseeded,
            "enumerated_runs": len(indices) - nseeded,
            "enumerated_subspace": getattr(prop, "ENUMERATED_NOTE", None),
            "runs_per_hour": int(agg["n"] / max(t_explore, 1e-6) * 3600),
            "seeds_per_hour": int(nseeded / max(t_explore, 1e-6) * 3600),
            "logical_time": {"seam_events": stats.get("events", 0), "line_steps": stats.get("steps", 0),
                             "simulated_seconds": stats.get("sim_seconds", 0),
                             "note": "the unchanged library reads no clock and sets no timer; the clock seam (time.time/monotonic/perf_counter/sleep) is simulated and advanced by the programs where a property's workload passes time; otherwise logical time is the count of seam events and of source-line steps executed under the step meter/scheduler"},
            "faults_fired": {k[len("fired."):]: v for k, v in sorted(stats.items()) if k.startswith("fired.")},
            "probes": {k[len("probe."):]: v for k, v in sorted(stats.items()) if k.startswith("probe.")},
            "other_counters": {k: v for k, v in sorted(stats.items()) if not k.startswith(("fired.", "probe.")) and k not in ("events", "steps")},
            "determinism_selfcheck": det,
            "python_O_pass": optpass,
            "incomplete_runs": agg["incomplete"],
            "components": getattr(prop, "COMPONENTS", None),
            "known_findings_hit": known_hit,
            "violation_signatures": [s for s in sigs if s not in known_hit],
            "harness_errors": len(agg["harness"]),
        }
        ev = {"property_id": prop.ID, "tier": tier, "seed": verif_seed, "level": prop.LEVEL, "coverage": cov,
              "assumptions": getattr(prop, "ASSUMPTIONS", []), "wall_s": round(wall, 2), "violations": n_viol}
        with open(os.path.join(EVIDENCE_DIR, "%s.json" % prop.ID), "w") as f:
            json.dump(ev, f, indent=1, sort_keys=True)

    for l in lines:
        print(l)
    for m in harness_msgs:
        print(m)
    probes_zero = [p for p in getattr(prop, "REQUIRED_PROBES", []) if not agg["stats"].get("probe." + p) and not agg["stats"].get("fired." + p)]
    if probes_zero:
        print("NOTE property=%s probes never hit in this batch: %s" % (prop.ID, ", ".join(probes_zero)))
    print("%s %s: %d runs (%d seeded + %d enumerated), %d distinct non-trivial, %d violation signature(s), %d known finding(s), %.1fs, exit %d" % (
        prop.ID, tier, agg["n"], nseeded, len(indices) - nseeded, len(agg["nt_digests"]), n_viol, len(known_hit), wall, exit_code))
    return exit_code
