"""Seams the simulator owns: fake `sgio` and `iscsi` binding modules, a virtual
/dev namespace behind open()/os.stat(), the host name.  Everything the library
does at a seam is appended to WORLD.events with a global sequence number.

No randomness and no clock in here: all behaviour is a function of the
program being executed."""

import builtins
import errno as _errno
import hashlib
import io
import json
import os
import socket
import sys
import time as _time
import types

_real_open = builtins.open
_real_stat = os.stat
_real_lstat = os.lstat
_real_fstat = os.fstat
_real_os_open = os.open
_real_os_close = os.close
_real_readlink = os.readlink
_real_clock = {n: getattr(_time, n) for n in ("time", "monotonic", "perf_counter", "sleep", "time_ns", "monotonic_ns", "perf_counter_ns")}
CLOCK_EPOCH = 1_790_000_000.0       # simulated wall clock at the start of every run

PASSTHROUGH_DEV = ("/dev/null", "/dev/urandom", "/dev/random", "/dev/tty", "/dev/shm",
                   "/dev/fd", "/dev/stdin", "/dev/stdout", "/dev/stderr", "/dev/pts", "/dev/zero", "/dev/full")

FAKE_FD_BASE = 1 << 24


def _norm(v):
    if isinstance(v, (bytes, bytearray, memoryview)):
        return bytes(v).hex()
    if isinstance(v, dict):
        return {str(k): _norm(x) for k, x in sorted(v.items(), key=lambda kv: str(kv[0]))}
    if isinstance(v, (list, tuple)):
        return [_norm(x) for x in v]
    if isinstance(v, (int, str, bool, float)) or v is None:
        return v
    return repr(v)


class World:
    """All simulated state of one run."""

    def __init__(self):
        self.reset()

    def reset(self):
        self.events = []
        self.nodes = {}          # path -> Node
        self.links = {}          # path -> (target path, inode of the link itself)
        self.next_ino = 1000
        self.handles = []        # every VHandle ever opened, in order
        self.next_fd = FAKE_FD_BASE
        self.fds = {}            # fake fd -> VHandle
        self.iscsi_targets = {}  # (portal, target, lun) -> LU ; or key "*"
        self.iscsi_contexts = []
        self.iscsi_logins = {}
        self.sense_buf = None
        self.armed = []          # faults armed for the next command
        self.fired = {}          # fault kind -> count
        self.hostname = "simhost"
        self.probes = {}
        self.deliveries = []     # one record per command that reached a binding
        self.flags = {}
        self.current_thread = None  # set by the scheduler (for event attribution)
        self.step_hook = None
        self.now = 0.0              # simulated seconds since the run started: the only clock the library can read
        self.clock_reads = 0

    # ---- event log
    def ev(self, kind, **kw):
        rec = {"seq": len(self.events), "kind": kind}
        if self.current_thread is not None:
            rec["thread"] = self.current_thread
        for k, v in kw.items():
            rec[k] = _norm(v)
        self.events.append(rec)
        return rec

    def digest(self):
        return hashlib.sha256(json.dumps(self.events, sort_keys=True).encode()).hexdigest()

    def probe(self, name, n=1):
        self.probes[name] = self.probes.get(name, 0) + n

    def fire(self, kind):
        self.fired[kind] = self.fired.get(kind, 0) + 1

    # ---- virtual /dev
    def plug(self, path, target, ino=None):
        if ino is None:
            self.next_ino += 1
            ino = self.next_ino
        node = Node(path, ino, target)
        self.nodes[path] = node
        self.ev("vfs.plug", path=path, ino=node.ino, dev_type=getattr(target, "dev_type", None))
        return node

    def unplug(self, path):
        node = self.nodes.pop(path, None)
        self.ev("vfs.unplug", path=path, ino=node.ino if node else None)
        return node

    def replug(self, path, target=None, ino=None):
        old = self.nodes.get(path)
        if target is None and old is not None:
            target = old.target
        self.ev("vfs.replug", path=path)
        return self.plug(path, target, ino)

    def symlink(self, path, target):
        """create or re-point a symbolic link in the virtual /dev (each creation is a new directory entry: new inode)"""
        self.next_ino += 1
        self.links[path] = (target, self.next_ino)
        self.ev("vfs.symlink", path=path, target=target, ino=self.next_ino)

    def resolve(self, path):
        for _ in range(8):
            if path not in self.links:
                return path
            t = self.links[path][0]
            path = t if t.startswith("/") else os.path.normpath(os.path.join(os.path.dirname(path), t))
        return path

    def lookup(self, path):
        """the node a path leads to now (symbolic links followed), or None"""
        return self.nodes.get(self.resolve(path))

    def is_dir(self, path):
        path = path.rstrip("/") or "/"
        return path == "/dev" or any(p.startswith(path + "/") for p in list(self.nodes) + list(self.links))

    # ---- simulated time
    def advance(self, dt):
        """let simulated time pass (between operations, or by the library sleeping)"""
        if dt > 0:
            self.now += dt
            self.ev("clock.advance", dt=dt)

    def read_clock(self):
        # every read moves the clock by a microsecond, so that a library polling the clock in a loop makes progress
        self.clock_reads += 1
        self.now += 1e-6
        return self.now

    # ---- faults
    def arm(self, fault):
        """fault: dict(kind=..., ...) consumed by the next command at a binding"""
        self.armed.append(dict(fault))

    def take_fault(self, kinds, cdb=None):
        """the first armed fault of one of the kinds (for this thread, and - if the fault names an operation code - for this
        command).  A fault is consumed by the command it hits unless it is 'sticky' (a target that keeps answering like that)."""
        for i, f in enumerate(self.armed):
            if f["kind"] in kinds and f.get("thread") in (None, self.current_thread):
                if f.get("opcode") is not None and (cdb is None or not len(cdb) or cdb[0] != f["opcode"]):
                    continue
                if f.get("count", 1) > 1:
                    f["count"] -= 1              # e.g. the next three opens are refused
                elif not f.get("sticky"):
                    del self.armed[i]
                self.fire(f["kind"] + ("_sticky" if f.get("sticky") else ""))
                return f
        return None


WORLD = World()


class Node:
    def __init__(self, path, ino, target):
        self.path = path
        self.ino = ino
        self.target = target


class VStat:
    def __init__(self, ino, mode=0o020660):
        self.st_ino = ino
        self.st_mode = mode
        self.st_dev = 5
        self.st_nlink = 1
        self.st_uid = self.st_gid = 0
        self.st_size = 0
        self.st_rdev = 0x1500
        self.st_atime = self.st_mtime = self.st_ctime = 0


class VHandle:
    """File object for a virtual device node."""

    def __init__(self, node, path, mode, buffering):
        self.node = node
        self.ino = node.ino
        self.name = path
        self.mode = mode
        self.buffering = buffering
        self.closed = False
        self.close_calls = 0
        self.os_releases = 0
        self.close_fault = None     # dict(errno=.., releases=bool) armed by a program
        self.hid = len(WORLD.handles)
        self.fd = WORLD.next_fd
        WORLD.next_fd += 1
        WORLD.fds[self.fd] = self
        WORLD.handles.append(self)

    def fileno(self):
        if self.closed:
            raise ValueError("I/O operation on closed file")
        return self.fd

    def close(self):
        self.close_calls += 1
        if self.closed:
            WORLD.ev("vfs.close", hid=self.hid, ino=self.ino, again=True)
            return
        fault = self.close_fault
        self.close_fault = None
        if fault is not None:
            WORLD.fire("close_fails")
            if fault.get("releases", True):
                self.closed = True
                self.os_releases += 1
                WORLD.fds.pop(self.fd, None)
            WORLD.ev("vfs.close", hid=self.hid, ino=self.ino, error=fault.get("errno", _errno.EIO),
                     released=bool(fault.get("releases", True)))
            raise OSError(fault.get("errno", _errno.EIO), os.strerror(fault.get("errno", _errno.EIO)))
        self.closed = True
        self.os_releases += 1
        WORLD.fds.pop(self.fd, None)
        WORLD.ev("vfs.close", hid=self.hid, ino=self.ino)

    def __enter__(self):
        return self

    def __exit__(self, *a):
        self.close()

    def readable(self):
        return True

    def writable(self):
        return "+" in self.mode or "w" in self.mode

    def seekable(self):
        return False

    def flush(self):
        pass

    def read(self, *a):
        raise OSError(_errno.EINVAL, "read on simulated sg node")

    def write(self, *a):
        raise OSError(_errno.EINVAL, "write on simulated sg node")

    def __repr__(self):
        return "<VHandle #%d ino=%d %s>" % (self.hid, self.ino, "closed" if self.closed else "open")


def _is_virtual(path):
    if isinstance(path, bytes):
        try:
            path = path.decode()
        except Exception:
            return False
    if hasattr(path, "__fspath__"):
        path = os.fspath(path)
    if not isinstance(path, str):
        return False
    if not (path == "/dev" or path.startswith("/dev/")):
        return False
    for p in PASSTHROUGH_DEV:
        if path == p or path.startswith(p + "/"):
            return False
    return True


def _vopen(path, mode="r", buffering=-1, *a, **kw):
    path = os.fspath(path) if not isinstance(path, str) else path
    node = WORLD.lookup(path)
    if node is None and WORLD.is_dir(WORLD.resolve(path)):
        WORLD.ev("vfs.open", path=path, mode=mode, error="EISDIR")
        raise IsADirectoryError(_errno.EISDIR, "Is a directory", path)
    if node is None:
        WORLD.ev("vfs.open", path=path, mode=mode, error="ENOENT")
        raise FileNotFoundError(_errno.ENOENT, "No such file or directory", path)
    f = WORLD.take_fault(("open_fails",))
    if f is not None:
        WORLD.ev("vfs.open", path=path, mode=mode, error=f.get("errno", _errno.EACCES))
        raise OSError(f.get("errno", _errno.EACCES), os.strerror(f.get("errno", _errno.EACCES)), path)
    h = VHandle(node, path, mode, buffering)
    WORLD.ev("vfs.open", path=path, mode=mode, buffering=buffering, hid=h.hid, ino=node.ino)
    f = WORLD.take_fault(("after_open",))
    if f is not None:
        # the world moves between two system calls of the library: the node vanishes right after this open succeeded
        real = WORLD.resolve(path)
        if real in WORLD.nodes:
            WORLD.unplug(real)
    return h


def fake_open(file, mode="r", buffering=-1, *a, **kw):
    if isinstance(file, int) and file in WORLD.fds:
        return WORLD.fds[file]
    if _is_virtual(file):
        return _vopen(file, mode, buffering, *a, **kw)
    if isinstance(mode, str) and any(c in mode for c in "wax") and isinstance(file, (str, bytes)):
        # a creating open of a path outside the simulated /dev, issued by the library under test (only changed libraries do
        # that, e.g. a dispatch that hands any string to SCSIDevice(read_write=True)): it succeeds as it would on a real
        # system, but on the null device, so that no stray file appears in the working directory of the check
        try:
            caller = sys._getframe(1).f_code.co_filename or ""
        except ValueError:
            caller = ""
        if (os.sep + "pyscsi" + os.sep) in caller.replace("\\", os.sep):
            WORLD.ev("vfs.open.stray", path=file if isinstance(file, str) else file.decode("utf-8", "replace"), mode=mode)
            return _real_open(os.devnull, mode, buffering, *a, **kw)
    return _real_open(file, mode, buffering, *a, **kw)


def fake_stat(path, *a, **kw):
    if isinstance(path, int) and path >= FAKE_FD_BASE:
        return fake_fstat(path)
    if _is_virtual(path):
        p = os.fspath(path)
        if isinstance(p, bytes):
            p = p.decode()
        node = WORLD.lookup(p)
        if node is None:
            if WORLD.is_dir(WORLD.resolve(p)):
                WORLD.ev("vfs.stat", path=p, dir=True)
                return VStat(2, 0o040755)
            WORLD.ev("vfs.stat", path=p, error="ENOENT")
            raise FileNotFoundError(_errno.ENOENT, "No such file or directory", p)
        WORLD.ev("vfs.stat", path=p, ino=node.ino)
        return VStat(node.ino)
    return _real_stat(path, *a, **kw)


def fake_lstat(path, *a, **kw):
    if _is_virtual(path):
        p = os.fspath(path)
        if isinstance(p, bytes):
            p = p.decode()
        if p in WORLD.links:
            # the directory entry itself: a symbolic link has its own inode, whatever it points to
            WORLD.ev("vfs.lstat", path=p, ino=WORLD.links[p][1], link=True)
            return VStat(WORLD.links[p][1], 0o120777)
        return fake_stat(path)
    return _real_lstat(path, *a, **kw)


def fake_readlink(path, *a, **kw):
    if _is_virtual(path):
        p = os.fspath(path)
        if isinstance(p, bytes):
            p = p.decode()
        if p in WORLD.links:
            WORLD.ev("vfs.readlink", path=p, target=WORLD.links[p][0])
            return WORLD.links[p][0]
        raise OSError(_errno.EINVAL if (WORLD.lookup(p) is not None or WORLD.is_dir(p)) else _errno.ENOENT, "readlink", p)
    return _real_readlink(path, *a, **kw)


def fake_fstat(fd):
    if isinstance(fd, int) and fd >= FAKE_FD_BASE:
        h = WORLD.fds.get(fd)
        if h is None:
            raise OSError(_errno.EBADF, "Bad file descriptor")
        WORLD.ev("vfs.fstat", hid=h.hid, ino=h.ino)
        return VStat(h.ino)
    return _real_fstat(fd)


def fake_os_open(path, flags, mode=0o777, *a, **kw):
    if _is_virtual(path):
        m = "w+b" if (flags & os.O_RDWR) else "rb"
        return _vopen(path, m, 0).fd
    return _real_os_open(path, flags, mode, *a, **kw)


def fake_os_close(fd):
    if isinstance(fd, int) and fd >= FAKE_FD_BASE:
        h = WORLD.fds.get(fd)
        if h is None:
            raise OSError(_errno.EBADF, "Bad file descriptor")
        return h.close()
    return _real_os_close(fd)


# ---------------------------------------------------------------- transport core
def _deliver(transport, target, cdb, dataout, xfer_in, extra):
    """Run one command on the target, applying armed faults.  Returns
    (status, sense, datain, oserror)"""
    W = WORLD
    f = W.take_fault(("ioctl_error",))
    if f is not None:
        W.ev(transport + ".cmd", cdb=cdb, outlen=len(dataout), inlen=xfer_in, fault="ioctl_error", **extra)
        W.deliveries.append({"transport": transport, "status": None, "oserror": f.get("errno", _errno.EIO), "cdb": bytes(cdb), "handed": None})
        return None, None, None, OSError(f.get("errno", _errno.EIO), os.strerror(f.get("errno", _errno.EIO)))
    applied = None
    status = None
    f = W.take_fault(("status",), cdb)
    if f is not None and f["byte"] != 0:
        # the target completes this command with the injected status instead
        # of executing it (the target decides before it changes anything)
        status = f["byte"]
        sense = bytes.fromhex(f["sense"]) if f.get("sense") is not None else b""
        datain = b""
        applied = "status"
    f = W.take_fault(("sense_payload",)) if status is None else None
    if f is not None:
        status = 0x02
        sense = None if f.get("no_sense") else bytes.fromhex(f["sense"])     # no_sense: autosense failed, the binding has no sense data
        datain = b""
        applied = "sense_payload"
    if status is None:
        status, sense, datain = target.execute(cdb, dataout, xfer_in)
    else:
        target.log.append(("!fault", {"cdb": bytes(cdb).hex(), "status": status}))
    f = W.take_fault(("corrupt_datain",))
    if f is not None and status == 0:
        datain = corrupt(datain, f, xfer_in)
        applied = "corrupt_datain"
    W.ev(transport + ".cmd", cdb=cdb, outlen=len(dataout), inlen=xfer_in, status=status,
         senselen=len(sense or b""), sense_sha=hashlib.sha256(bytes(sense or b"")).hexdigest()[:12], datain_sha=hashlib.sha256(datain or b"").hexdigest()[:12],
         fault=applied, **extra)
    W.deliveries.append({"transport": transport, "status": status, "sense": bytes(sense or b""), "handed": bytes(sense or b""),
                         "cdb": bytes(cdb), "fault": applied, "outlen": len(dataout), "inlen": xfer_in,
                         "target": target, "dataout": bytes(dataout)})
    return status, sense, datain, None


def corrupt(data, f, xfer_in):
    data = bytearray(data)
    mode = f["mode"]
    if mode == "replace":
        return bytes.fromhex(f["data"])
    if mode == "set":
        for off, val in f["bytes"]:
            if off < len(data):
                data[off] = val & 0xFF
    elif mode == "truncate":
        data = data[:f["n"]]
    elif mode == "fill":
        n = f.get("n", xfer_in)
        data = bytearray([f["byte"] & 0xFF]) * n
    elif mode == "tail":
        data = data + bytes.fromhex(f["data"])
    elif mode == "fields":
        for off, width, val in f["fields"]:
            if off + width <= len(data):
                data[off:off + width] = (val & ((1 << (8 * width)) - 1)).to_bytes(width, "big")
                if val == 0:
                    WORLD.probe("zero_length_field")
    return bytes(data)


# ---------------------------------------------------------------- fake sgio
def make_sgio():
    m = types.ModuleType("sgio")
    m.__file__ = "<simulated sgio>"

    class CheckConditionError(Exception):
        def __init__(self, sense):
            Exception.__init__(self, "Check Condition")
            self.sense = sense

    class UnspecifiedError(Exception):
        pass

    def execute(fid, cdb, data_out, data_in, max_sense_data_length=32, return_sense_buffer=False, **kw):
        W = WORLD
        out_len = len(data_out) if data_out is not None else 0
        in_len = len(data_in) if data_in is not None else 0
        if out_len and in_len:
            raise NotImplementedError("Indirect IO is not supported")
        fd = fid.fileno() if hasattr(fid, "fileno") else fid   # raises ValueError on a closed handle
        h = W.fds.get(fd)
        if h is None:
            W.ev("sgio.cmd", error="EBADF")
            raise OSError(_errno.EBADF, "Bad file descriptor")
        node_now = W.lookup(h.name)
        extra = dict(hid=h.hid, handle_ino=h.ino, path_ino=node_now.ino if node_now else None, same_node=node_now is h.node)
        if out_len and W.flags.get("enforce_open_mode") and not h.writable():
            # the sg driver refuses data-out commands on a file descriptor that was not opened for writing
            W.ev("sgio.cmd", cdb=bytes(cdb), error="EPERM", **extra)
            raise OSError(_errno.EPERM, "Operation not permitted")
        status, sense, datain, err = _deliver("sgio", h.node.target, bytes(cdb),
                                              bytes(data_out) if out_len else b"", in_len, extra)
        if W.deliveries:
            W.deliveries[-1]["binding_data_in_obj"] = data_in
            W.deliveries[-1]["binding_data_out_obj"] = data_out
        if err is not None:
            if W.flags.pop("replug_when_ioctl_fails", False):
                # the node is replaced while the command is in flight: the ioctl fails AND a new node is at the path afterwards
                real = W.resolve(h.name)
                if real in W.nodes:
                    W.replug(real)
            raise err
        if status == 0x00:
            n = min(len(datain), in_len)
            if n:
                memoryview(data_in)[:n] = datain[:n]
            resid = in_len - n
            if return_sense_buffer:
                return resid, None
            return resid
        if status == 0x02 and sense:
            n = min(len(datain), in_len)
            if n:
                memoryview(data_in)[:n] = datain[:n]
            W.deliveries[-1]["handed"] = bytes(sense[:max_sense_data_length])
            if W.flags.get("reuse_sense_buffer"):
                # a binding (or application) that keeps ONE sense buffer and overwrites it with every failure
                if W.sense_buf is None:
                    W.sense_buf = bytearray()
                W.sense_buf[:] = sense[:max_sense_data_length]
                raise CheckConditionError(W.sense_buf)
            raise CheckConditionError(bytes(sense[:max_sense_data_length]))
        raise UnspecifiedError()

    m.CheckConditionError = CheckConditionError
    m.UnspecifiedError = UnspecifiedError
    m.execute = execute
    return m


# ---------------------------------------------------------------- fake iscsi
def make_iscsi():
    m = types.ModuleType("iscsi")
    m.__file__ = "<simulated iscsi>"
    m.SCSI_XFER_NONE = 0
    m.SCSI_XFER_READ = 1
    m.SCSI_XFER_WRITE = 2
    m.ISCSI_SESSION_DISCOVERY = 1
    m.ISCSI_SESSION_NORMAL = 2
    m.ISCSI_HEADER_DIGEST_NONE = 0
    m.ISCSI_HEADER_DIGEST_NONE_CRC32C = 1
    m.ISCSI_HEADER_DIGEST_CRC32C_NONE = 2
    m.ISCSI_HEADER_DIGEST_CRC32C = 3

    class Task:
        def __init__(self, cdb, direction, xferlen):
            self.cdb = bytes(cdb)
            self.direction = direction
            self.xferlen = xferlen
            self.status = 0          # like the zero-initialised task structure of the real binding: reads as GOOD until the command completed
            self._sense = None

        @property
        def raw_sense(self):
            if self._sense is None:
                raise AttributeError("raw_sense")
            return self._sense

    class URL:
        def __init__(self, ctx, url):
            self.url = url
            if not isinstance(url, str) or not url.startswith("iscsi://"):
                raise ValueError("Invalid iSCSI URL %r" % (url,))
            rest = url[len("iscsi://"):]
            parts = rest.split("/")
            if len(parts) != 3 or not parts[0] or not parts[1]:
                WORLD.ev("iscsi.url", url=url, error="parse")
                raise ValueError("Invalid iSCSI URL %r" % (url,))
            self.portal = parts[0]
            self.target = parts[1]
            try:
                self.lun = int(parts[2])
            except ValueError:
                WORLD.ev("iscsi.url", url=url, error="lun")
                raise ValueError("Invalid iSCSI URL %r" % (url,))
            WORLD.ev("iscsi.url", url=url)

    class Context:
        def __init__(self, initiator_name):
            self.initiator_name = initiator_name
            self.targetname = None
            self.session_type = None
            self.header_digest = None
            self.connected = None
            self.connects = 0
            self.disconnects = 0
            self.cid = len(WORLD.iscsi_contexts)
            WORLD.iscsi_contexts.append(self)
            WORLD.ev("iscsi.context", cid=self.cid, initiator=initiator_name)

        def set_targetname(self, name):
            self.targetname = name

        def set_session_type(self, t):
            self.session_type = t

        def set_header_digest(self, d):
            self.header_digest = d

        def connect(self, portal, lun):
            key = (portal, self.targetname, lun)
            lu = WORLD.iscsi_targets.get(key)
            WORLD.ev("iscsi.connect", cid=self.cid, portal=portal, target=self.targetname, lun=lun, found=lu is not None)
            if lu is None:
                raise RuntimeError("iscsi connect failed: no such target %r" % (key,))
            self.connects += 1
            self.connected = key
            WORLD.iscsi_logins[key] = WORLD.iscsi_logins.get(key, 0) + 1
            if WORLD.iscsi_logins[key] > 1 and WORLD.flags.get("ua_on_relogin"):
                # a new I_T nexus after an earlier one: the logical unit establishes a unit attention condition for it
                lu.unit_attention = (6, 0x29, 0x07)

        def disconnect(self):
            WORLD.ev("iscsi.disconnect", cid=self.cid, was_connected=self.connected is not None)
            self.disconnects += 1
            self.connected = None

        def command(self, lun, task, data_out, data_in):
            if self.connected is None:
                WORLD.ev("iscsi.cmd", cid=self.cid, error="not connected")
                raise RuntimeError("iscsi: not connected")
            lu = WORLD.iscsi_targets.get((self.connected[0], self.connected[1], lun))
            if lu is None:
                raise RuntimeError("iscsi: no such lun")
            dataout = b""
            xfer_in = 0
            if task.direction == m.SCSI_XFER_WRITE:
                dataout = bytes(data_out[:task.xferlen]) if data_out is not None else b""
                if len(dataout) < task.xferlen:
                    dataout = dataout + bytes(task.xferlen - len(dataout))
            elif task.direction == m.SCSI_XFER_READ:
                xfer_in = task.xferlen
            status, sense, datain, err = _deliver("iscsi", lu, task.cdb, dataout, xfer_in, dict(cid=self.cid, dir=task.direction))
            if WORLD.deliveries:
                WORLD.deliveries[-1]["binding_data_in_obj"] = data_in
                WORLD.deliveries[-1]["binding_data_out_obj"] = data_out
            if err is not None:
                raise err
            task.status = status
            if status == 0x02 and sense is not None:
                task._sense = bytearray(sense) if WORLD.flags.get("iscsi_sense_bytearray") else bytes(sense)
                if WORLD.flags.get("reuse_sense_buffer"):
                    if WORLD.sense_buf is None:
                        WORLD.sense_buf = bytearray()
                    WORLD.sense_buf[:] = sense
                    task._sense = WORLD.sense_buf
            if datain and data_in is not None:
                n = min(len(datain), len(data_in), task.xferlen)
                if n:
                    memoryview(data_in)[:n] = datain[:n]

    m.Task = Task
    m.URL = URL
    m.Context = Context
    return m


# ---------------------------------------------------------------- install
_installed = False


class _UnloadableFinder:
    names = set()

    def find_spec(self, name, path=None, target=None):
        if name in self.names:
            WORLD.fired["binding_unloadable"] = WORLD.fired.get("binding_unloadable", 0) + 1
            raise ImportError("%s.cpython-312-x86_64-linux-gnu.so: undefined symbol: sg_io_v3 (simulated)" % name, name=name)
        return None


def drop_editable_finders():
    """/venv carries an editable install of /repo whose meta-path finder resolves pyscsi.* from /repo whatever tree is being
    verified (it would silently supply sub-packages the tree under test lacks): the library must come from sys.path only"""
    sys.meta_path[:] = [f for f in sys.meta_path
                        if "__editable__" not in str(getattr(f, "__module__", "")) and "__editable__" not in type(f).__module__]


def install(sgio=True, iscsi=True, hostname="simhost"):
    """Install the seams.  Must run before pyscsi is imported.  sgio/iscsi:
    True -> fake module present, False -> absent (import raises ModuleNotFoundError),
    "unloadable" -> installed but failing to load (import raises plain ImportError)."""
    global _installed
    WORLD.hostname = hostname
    drop_editable_finders()
    for name, present, make in (("sgio", sgio, make_sgio), ("iscsi", iscsi, make_iscsi)):
        if present == "unloadable":
            # the extension module is installed but cannot be loaded (stale build, missing shared library):
            # the import machinery reports that as a plain ImportError, not as ModuleNotFoundError
            sys.modules.pop(name, None)
            _UnloadableFinder.names.add(name)
            if not any(isinstance(f, _UnloadableFinder) for f in sys.meta_path):
                sys.meta_path.insert(0, _UnloadableFinder())
        else:
            _UnloadableFinder.names.discard(name)
            sys.modules[name] = make() if present else None
    if not _installed:
        builtins.open = fake_open
        io.open = fake_open
        os.stat = fake_stat
        os.lstat = fake_lstat
        os.readlink = fake_readlink
        os.fstat = fake_fstat
        os.open = fake_os_open
        os.close = fake_os_close
        socket.gethostname = lambda: WORLD.hostname
        # the clock: the library (and only the library; the harness keeps the real one in sim/core.py) reads simulated time
        _time.time = lambda: CLOCK_EPOCH + WORLD.read_clock()
        _time.monotonic = lambda: 1000.0 + WORLD.read_clock()
        _time.perf_counter = lambda: 1000.0 + WORLD.read_clock()
        _time.time_ns = lambda: int((CLOCK_EPOCH + WORLD.read_clock()) * 1e9)
        _time.monotonic_ns = lambda: int((1000.0 + WORLD.read_clock()) * 1e9)
        _time.perf_counter_ns = lambda: int((1000.0 + WORLD.read_clock()) * 1e9)
        _time.sleep = lambda d: WORLD.advance(float(d))
        _installed = True


def import_pyscsi(repo):
    """Put <repo> first on sys.path and import the library from there."""
    sys.dont_write_bytecode = True
    repo = os.path.realpath(repo)
    if sys.path[0] != repo:
        sys.path.insert(0, repo)
    import pyscsi  # noqa
    f = os.path.realpath(pyscsi.__file__)
    if not f.startswith(repo + os.sep):
        raise RuntimeError("pyscsi imported from %s, expected under %s" % (f, repo))
    import pyscsi.pyscsi.scsi  # noqa
    import pyscsi.pyscsi.scsi_device  # noqa
    import pyscsi.pyiscsi.iscsi_device  # noqa
    import pyscsi.utils  # noqa
    return pyscsi
