"""Deterministic thread scheduler: real threads, baton passing, sys.settrace
line/call/return (optionally opcode) events inside the library as pre-emption
points.  Exactly one simulated thread runs at any time; *which* one is always
this scheduler's decision, derived from one seed or replayed from a recorded
switch list.

Also: cooperative replacements for threading.Lock/RLock (installed before the
library is imported) so that a lock-based repair of shared state neither
deadlocks the simulator nor is reported as an alarm."""

import _thread
import random
import sys
import threading

from .seams import WORLD

_allocate = _thread.allocate_lock
_get_ident = _thread.get_ident

CURRENT = None          # the active Scheduler, if any


class HarnessAbort(BaseException):
    pass


class Deadlock(HarnessAbort):
    pass


class StepLimit(HarnessAbort):
    pass


# ---------------------------------------------------------------- cooperative locks
class CoopLock:
    _reentrant = False

    def __init__(self):
        self._owner = None
        self._count = 0

    def _me(self):
        s = CURRENT
        if s is not None and s.active:
            return ("sim", s.current)
        return ("os", _get_ident())

    def acquire(self, blocking=True, timeout=-1):
        me = self._me()
        while True:
            if self._owner is None:
                self._owner = me
                self._count = 1
                return True
            if self._reentrant and self._owner == me:
                self._count += 1
                return True
            if not blocking:
                return False
            s = CURRENT
            if s is None or not s.active or me[0] != "sim":
                raise RuntimeError("simulated lock would block outside the scheduler (held by %r)" % (self._owner,))
            s.block_on(self)

    def release(self):
        if self._owner is None:
            raise RuntimeError("release unlocked lock")
        self._count -= 1
        if self._count <= 0:
            self._owner = None
            self._count = 0
            s = CURRENT
            if s is not None and s.active:
                s.wake(self)

    def locked(self):
        return self._owner is not None

    def _at_fork_reinit(self):
        # what threading's locks offer to os.register_at_fork users (logging re-initialises its locks in a forked child)
        self._owner = None
        self._count = 0

    def __enter__(self):
        self.acquire()
        return self

    def __exit__(self, *a):
        self.release()

    # RLock internals used by threading.Condition
    def _is_owned(self):
        return self._owner == self._me()

    def _release_save(self):
        st = (self._count, self._owner)
        self._count = 0
        self._owner = None
        s = CURRENT
        if s is not None and s.active:
            s.wake(self)
        return st

    def _acquire_restore(self, st):
        self.acquire()
        self._count, self._owner = st


class CoopRLock(CoopLock):
    _reentrant = True


_locks_installed = False


def install_coop_locks():
    """Replace threading.Lock/RLock for code imported afterwards."""
    global _locks_installed
    if not _locks_installed:
        threading.Lock = CoopLock
        threading.RLock = CoopRLock
        _locks_installed = True


# ---------------------------------------------------------------- scheduler
class Scheduler:
    """strategy: dict(kind='random', p=..) | dict(kind='pct', k=.., horizon=..) |
    dict(kind='boundary', p=..) | dict(kind='replay'); opcode=True for
    bytecode granularity.  trace: list of [step, to_thread] (replay)."""

    def __init__(self, n, seed, strategy, prefix, trace=None, max_steps=2_000_000):
        self.n = n
        self.rng = random.Random(seed)
        self.strategy = dict(strategy)
        self.prefix = prefix
        self.max_steps = max_steps
        self.gates = [_allocate() for _ in range(n)]
        for g in self.gates:
            g.acquire()
        self.main_gate = _allocate()
        self.main_gate.acquire()
        self.state = ["new"] * n          # new | runnable | blocked | done
        self.blocked_on = [None] * n
        self.current = None
        self.active = False
        self.steps = 0
        self.switches = []                # [step, from, to, where]
        self.preemptions = 0
        self.where_switched = set()
        self.errors = [None] * n
        self.replay = None
        if trace is not None:
            self.replay = {}
            for st, to in trace:
                self.replay.setdefault(st, []).append(to)
        if self.strategy.get("kind") == "pct":
            k = self.strategy.get("k", 2)
            horizon = max(self.strategy.get("horizon", 400), 2)
            self.change_points = set(self.rng.randrange(1, horizon) for _ in range(k))
        self.opcode = bool(self.strategy.get("opcode"))
        if self.opcode:
            self.max_steps *= 10         # bytecode granularity: about ten events per source line

    # -- tracing
    def _global_trace(self, frame, event, arg):
        if frame.f_code.co_filename.startswith(self.prefix):
            if self.opcode:
                frame.f_trace_opcodes = True
            self._point(frame, "call")
            return self._local_trace
        return None

    def _local_trace(self, frame, event, arg):
        if event == "line" or event == "return" or event == "opcode":
            self._point(frame, event)
        return self._local_trace

    def _point(self, frame, event):
        if not self.active:
            return
        self.steps += 1
        if self.steps > self.max_steps:
            raise StepLimit("scheduler step limit %d exceeded" % self.max_steps)
        me = self.current
        to = self._decide(me, event)
        if to is not None and to != me:
            self.preemptions += 1
            where = "%s:%d" % (frame.f_code.co_filename[len(self.prefix):], frame.f_lineno or 0)
            self.where_switched.add(where)
            self._switch(me, to, where)

    def _runnable(self, exclude=None):
        return [i for i in range(self.n) if self.state[i] == "runnable" and i != exclude]

    def _decide(self, me, event):
        """pre-emption decision at a step inside the library"""
        if self.replay is not None:
            lst = self.replay.get(self.steps)
            if lst:
                to = lst.pop(0)
                if 0 <= to < self.n and self.state[to] == "runnable":
                    return to
            return None
        others = self._runnable(exclude=me)
        if not others:
            return None
        kind = self.strategy.get("kind", "random")
        if kind == "random":
            if self.rng.random() < self.strategy.get("p", 0.02):
                return self.rng.choice(others)
        elif kind == "boundary":
            if event in ("call", "return") and self.rng.random() < self.strategy.get("p", 0.2):
                return self.rng.choice(others)
        elif kind == "pct":
            if self.steps in self.change_points:
                return self.rng.choice(others)
        return None

    def _forced(self, me):
        """the running thread cannot continue (finished or blocked): who is next?"""
        if self.replay is not None:
            lst = self.replay.get(self.steps)
            if lst:
                to = lst.pop(0)
                if to == -1 or (0 <= to < self.n and self.state[to] == "runnable"):
                    return to
        r = self._runnable(exclude=me)
        if not r:
            return -1
        if self.replay is not None:
            return r[0]
        return self.rng.choice(r)

    def _switch(self, me, to, where):
        self.switches.append([self.steps, me, to, where])
        self.current = to
        WORLD.current_thread = to
        self.gates[to].release()
        self.gates[me].acquire()

    # -- called by simulated threads
    def yield_point(self, label="op"):
        """explicit pre-emption point (operation boundary)"""
        if not self.active:
            return
        self.steps += 1
        me = self.current
        to = None
        if self.replay is not None:
            to = self._decide(me, "call")
        else:
            others = self._runnable(exclude=me)
            if others and self.rng.random() < self.strategy.get("p_op", 0.3):
                to = self.rng.choice(others)
        if to is not None and to != me:
            self._switch(me, to, label)

    def block_on(self, lock):
        me = self.current
        self.state[me] = "blocked"
        self.blocked_on[me] = lock
        self.steps += 1
        to = self._forced(me)
        if to == -1:
            self.state[me] = "runnable"
            raise Deadlock("all simulated threads are blocked")
        self._switch(me, to, "lock")

    def wake(self, lock):
        for i in range(self.n):
            if self.state[i] == "blocked" and self.blocked_on[i] is lock:
                self.state[i] = "runnable"
                self.blocked_on[i] = None

    # -- running
    def _bootstrap(self, i, body):
        self.gates[i].acquire()
        sys.settrace(self._global_trace)
        try:
            body(i)
        except HarnessAbort as e:
            self.errors[i] = e
        except BaseException as e:  # noqa - a bug in a thread body is a harness error
            self.errors[i] = e
        finally:
            sys.settrace(None)
            self.state[i] = "done"
            self.steps += 1
            to = self._forced(i)
            if to == -1:
                blocked = [j for j in range(self.n) if self.state[j] == "blocked"]
                if blocked:
                    self.errors[i] = self.errors[i] or Deadlock("threads %s blocked forever" % blocked)
                self.switches.append([self.steps, i, -1, "end"])
                self.active = False
                self.main_gate.release()
            else:
                self.switches.append([self.steps, i, to, "end"])
                self.current = to
                WORLD.current_thread = to
                self.gates[to].release()

    def run(self, bodies):
        global CURRENT
        assert len(bodies) == self.n
        CURRENT = self
        for i, b in enumerate(bodies):
            self.state[i] = "runnable"
            _thread.start_new_thread(self._bootstrap, (i, b))
        self.active = True
        first = 0
        if self.replay is not None:
            lst = self.replay.get(0)
            if lst:
                first = lst.pop(0)
        elif self.n > 1:
            first = self.rng.randrange(self.n)
        self.switches.append([0, -1, first, "start"])
        self.current = first
        WORLD.current_thread = first
        self.gates[first].release()
        self.main_gate.acquire()
        self.active = False
        WORLD.current_thread = None
        CURRENT = None
        for e in self.errors:
            if e is not None:
                raise e

    def recorded_trace(self):
        return [[s[0], s[2]] for s in self.switches]
