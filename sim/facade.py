"""Catalogue of the 38 facade methods: which simulated LU kinds accept them,
and generators of argument tuples that a conformant target of that kind
completes with GOOD (unless stated).  Arguments are JSON-able; byte payloads
are written {"$b": [seed, length]} and materialised by `real_args`.

The argument *names* here are the ones documented in the docstrings of
pyscsi/pyscsi/scsi.py and the standards' field names, not taken from the
constructors."""

BLOCK, CHANGER, MMC, ANY = "block", "changer", "mmc", "any"


def biased(rng, bits, hi=None):
    """boundary-biased integer in [0, 2**bits) (or [0, hi])"""
    top = (1 << bits) - 1 if hi is None else hi
    r = rng.random()
    if r < 0.15:
        v = 0
    elif r < 0.25:
        v = 1
    elif r < 0.35:
        v = top
    elif r < 0.55:
        v = 1 << rng.randrange(max(1, top.bit_length()))
    elif r < 0.65:
        b = rng.choice([8, 16, 24, 32, 40, 48, 56])
        v = (1 << b) + rng.choice([-1, 0, 1])
    else:
        v = rng.randrange(top + 1)
    return max(0, min(v, top))


def pattern(seed, n):
    """n deterministic pseudo-random bytes for a seed (no PRNG state involved)"""
    import hashlib
    return bytearray(hashlib.shake_128(b"verif-payload:%d" % (seed & 0xFFFFFFFFFFFFFFFF)).digest(n)) if n else bytearray()


def real_args(v):
    if isinstance(v, dict):
        if "$b" in v:
            return pattern(v["$b"][0], v["$b"][1])
        if "$hex" in v:
            return bytearray.fromhex(v["$hex"])
        return {k: real_args(x) for k, x in v.items()}
    if isinstance(v, list):
        return [real_args(x) for x in v]
    return v


def _flags(rng, names, p=0.3):
    return {n: 1 for n in names if rng.random() < p}


def _rw_common(rng, cfg, bits, prot):
    bs, nb = cfg["bs"], cfg["nblocks"]
    tl = rng.choice([0, 1, 1, 2, 3, 8]) if bs > 1 else rng.choice([0, 1, 2, 17, 255, 256, 1000])
    lba_max = min(nb - tl, (1 << bits) - 1)
    lba = min(biased(rng, bits), max(lba_max, 0))
    kw = {}
    if rng.random() < 0.5:
        kw.update(_flags(rng, ["dpo", "fua"]))
        if rng.random() < 0.3:
            kw[prot] = rng.randrange(8)
        if rng.random() < 0.3:
            kw["group"] = rng.randrange(32)
    return lba, tl, kw


def g_read(bits):
    def g(rng, cfg):
        lba, tl, kw = _rw_common(rng, cfg, bits, "rdprotect")
        if rng.random() < 0.2:
            kw["rarc"] = 1
        return [lba, tl], kw
    return g


def g_write(bits):
    def g(rng, cfg):
        lba, tl, kw = _rw_common(rng, cfg, bits, "wrprotect")
        return [lba, tl, {"$b": [rng.randrange(1 << 30), tl * cfg["bs"]]}], kw
    return g


def g_writesame(bits, ndob_ok):
    def g(rng, cfg):
        nb = rng.choice([1, 1, 2, 5, 64])
        lba = min(biased(rng, bits), max(cfg["nblocks"] - nb, 0), (1 << bits) - 1)
        kw = {}
        if rng.random() < 0.3:
            kw["unmap"] = 1
            if rng.random() < 0.5:
                kw["anchor"] = 1
        if rng.random() < 0.3:
            kw["wrprotect"] = rng.randrange(8)
        if rng.random() < 0.3:
            kw["group"] = rng.randrange(32)
        data = {"$b": [rng.randrange(1 << 30), cfg["bs"]]}
        if ndob_ok and rng.random() < 0.3:
            kw["ndob"] = 1
            data = None
        return [lba, nb, data], kw
    return g


def g_sync(bits, nbits):
    def g(rng, cfg):
        n = rng.choice([0, 1, 8, 100])
        lba = min(biased(rng, bits), max(cfg["nblocks"] - n, 0), (1 << bits) - 1)
        kw = {}
        if rng.random() < 0.3:
            kw["immed"] = 1
        if rng.random() < 0.3:
            kw["group"] = rng.randrange(32)
        return [lba, n], kw
    return g


def _alloc(rng, default, small=(0, 1, 3, 4, 7, 8, 12, 36, 96, 255)):
    r = rng.random()
    if r < 0.5:
        return None
    if r < 0.8:
        return rng.choice(small)
    return rng.choice([default, 512, 1024, 4096])


CONTROL_MP = {"spf": 0, "ps": 0, "page_code": 0x0A, "tst": 0, "d_sense": 1, "swp": 0, "qerr": 0,
              "busy_timeout_period": 0x1234, "extended_self_test_completion_time": 7}
DISCONNECT_MP = {"spf": 0, "ps": 0, "page_code": 0x02, "buffer_full_ratio": 3, "buffer_empty_ratio": 4,
                 "bus_inactivity_limit": 5, "disconnect_time_limit": 6, "connect_time_limit": 7,
                 "maximum_burst_size": 8, "first_burst_size": 9}


def g_modeselect(rng, cfg):
    mp = dict(rng.choice([CONTROL_MP, DISCONNECT_MP]))
    if mp["page_code"] == 0x0A:
        mp["swp"] = rng.randrange(2)
        mp["busy_timeout_period"] = rng.randrange(1 << 16)
    else:
        mp["maximum_burst_size"] = rng.randrange(1 << 16)
    data = {"medium_type": 0, "device_specific_parameter": 0, "mode_pages": [mp]}
    kw = {}
    if rng.random() < 0.4:
        kw["pf"] = 1
    if rng.random() < 0.2:
        kw["sp"] = 0
    return [data], kw


def g_modesense(ten):
    def g(rng, cfg):
        if cfg["kind"] == CHANGER:
            page = rng.choice([0x1D, 0x0A, 0x3F])
        else:
            page = rng.choice([0x0A, 0x02, 0x3F])
        kw = {}
        if rng.random() < 0.3:
            kw["dbd"] = 1
        if rng.random() < 0.3:
            kw["pc"] = rng.choice([0, 1, 2, 3])
        if rng.random() < 0.15:
            kw["sub_page_code"] = 0
        if ten and rng.random() < 0.3:
            kw["llbaa"] = 1
        a = _alloc(rng, 96)
        if a is not None:
            kw["alloclen"] = min(a, 255) if not ten else a
        return [page], kw
    return g


def g_inquiry(rng, cfg):
    kw = {}
    r = rng.random()
    if r < 0.5:
        pass
    else:
        kw["evpd"] = 1
        pages = [0x00, 0x80, 0x83]
        if cfg["kind"] == BLOCK:
            pages += [0xB0, 0xB1, 0xB2, 0x86, 0xB3, 0x89]
        kw["page_code"] = rng.choice(pages)
    a = _alloc(rng, 96)
    if a is not None:
        kw["alloclen"] = a
    return [], kw


def g_alloc_kw(name, default):
    def g(rng, cfg):
        kw = {}
        a = _alloc(rng, default)
        if a is not None:
            kw[name] = a
        return [], kw
    return g


def g_reportluns(rng, cfg):
    kw = {}
    if rng.random() < 0.4:
        kw["report"] = rng.choice([0, 1, 2])
    a = _alloc(rng, 96)
    if a is not None:
        kw["alloclen"] = a
    return [], kw


def g_rtpg(rng, cfg):
    kw = {}
    if rng.random() < 0.5:
        kw["data_format"] = rng.choice([0, 1])
    a = _alloc(rng, 16384)
    if a is not None:
        kw["alloclen"] = a
    return [], kw


def g_reportpriority(rng, cfg):
    kw = {}
    if rng.random() < 0.5:
        kw["priority"] = rng.randrange(4)
    a = _alloc(rng, 16384)
    if a is not None:
        kw["alloclen"] = a
    return [], kw


def g_getlbastatus(rng, cfg):
    kw = {}
    a = _alloc(rng, 16384)
    if a is not None:
        kw["alloclen"] = a
    return [min(biased(rng, 64), cfg["nblocks"] - 1)], kw


def g_prin(rng, cfg):
    kw = {}
    a = _alloc(rng, 1024)
    if a is not None:
        kw["alloclen"] = a
    return [rng.randrange(4)], kw


def g_prout(rng, cfg):
    sa = rng.choice([0, 0, 6, 1, 2, 3, 7])
    kw = {"reservation_key": rng.choice([0, 0xABCDEF, biased(rng, 64)]),
          "service_action_reservation_key": rng.choice([0, 0xABCDEF, biased(rng, 64)])}
    if rng.random() < 0.3:
        kw["aptpl"] = 1
    if sa == 0 and rng.random() < 0.4:
        kw["spec_i_pt"] = 1
        kw["transport_ids"] = [rng.choice([
            {"protocol_id": 5, "iscsi_name": "iqn.2026-10.verif:%s" % ("x" * rng.randrange(0, 9))},
            {"protocol_id": 5, "tpid_format": 1, "iscsi_name": "iqn.2026-10.verif:a", "iscsi_initiator_session_id": "00023d000001"},
            {"protocol_id": 6, "sas_address": {"$hex": "5001020304050607"}},
            {"protocol_id": 0, "n_port_name": {"$hex": "2001020304050607"}},
        ])]
    if sa == 7:
        kw["relative_target_port_id"] = rng.randrange(1 << 16)
        if rng.random() < 0.6:
            kw["transport_id"] = {"protocol_id": 5, "iscsi_name": "iqn.2026-10.verif:mv"}
    elif "transport_ids" in kw and rng.random() < 0.3:
        # an application that fills in every documented key, used or not by this service action
        kw["transport_id"] = {"protocol_id": 5, "iscsi_name": "iqn.2026-10.verif:extra"}
    args = [sa]
    if rng.random() < 0.6:
        kw["scope"] = 0
        kw["pr_type"] = rng.choice([1, 3, 5, 6, 7, 8])
    return args, kw


def g_ata(sixteen):
    def g(rng, cfg):
        # protocal, t_length, byte_block, t_dir, t_type, off_line, fetures, count, lba, command
        t_length = rng.choice([0, 0, 1, 2, 3])
        byte_block = rng.randrange(2)
        t_dir = rng.randrange(2)
        t_type = rng.randrange(2)
        fet = rng.randrange(1 << (16 if sixteen else 8)) if t_length != 1 else rng.choice([0, 1, 2])
        cnt = rng.randrange(1 << (16 if sixteen else 8)) if t_length != 2 else rng.choice([0, 1, 2])
        lba = biased(rng, 48 if sixteen else 24)
        args = [rng.choice([3, 4, 5, 6, 0xF]), t_length, byte_block, t_dir, t_type, rng.randrange(4), fet, cnt, lba, rng.choice([0xEC, 0x25, 0x35, 0xB0, 0xE5])]
        kw = {}
        if byte_block and t_type and t_length:
            kw["blocksize"] = rng.choice([512, 520, 4096])
        elif rng.random() < 0.2:
            kw["blocksize"] = 512
        if t_length == 3 and rng.random() < 0.7:
            kw["extra_tl"] = rng.choice([0, 1, 2])
        if rng.random() < 0.3:
            kw["ck_cond"] = 1
        if rng.random() < 0.3:
            kw["device"] = rng.randrange(256)
        if rng.random() < 0.3:
            kw["control"] = rng.randrange(256)
        if sixteen and rng.random() < 0.4:
            kw["extend"] = rng.randrange(2)
        return args, kw
    return g


TGT_DESC = {
    "descriptor_type_code": 0xE4, "peripheral_device_type": 0,
    "device_type_specific_parameters": {"disk_block_length": 512},
    "target_descriptor_parameters": {
        "association": 0, "code_set": 1, "designator_length": 16, "designator_type": 3,
        "designator": {"ieee_company_id": 5807356, "naa": 6, "vendor_specific_identifier": 3140,
                       "vendor_specific_identifier_extension": 14160104652988484981}}}
SEG_B2B = {"block_device_number_of_blocks": 4, "dc": 1, "descriptor_type_code": 0x02,
           "destination_block_device_logical_block_address": 10, "destination_target_descriptor_id": 1,
           "source_block_device_logical_block_address": 1, "source_target_descriptor_id": 0}


def _copy(x):
    import copy
    return copy.deepcopy(x)


def tgt_desc(rng):
    """an identification target/CSCD descriptor with one of the designator kinds of SPC (company ids from a small set, so that
    several descriptors of one vendor occur)"""
    d = _copy(TGT_DESC)
    company = rng.choice([0x0050C2, 0x589CFC, 0x0050C2])
    r = rng.random()
    if r < 0.45:
        return d
    if r < 0.65:
        d["target_descriptor_parameters"] = {"association": 0, "code_set": 1, "designator_length": 8, "designator_type": 2,
                                             "designator": {"ieee_company_id": company, "vendor_specific_extension_id": {"$b": [rng.randrange(50), 5]}}}
    elif r < 0.8:
        d["target_descriptor_parameters"] = {"association": 0, "code_set": 2, "designator_length": 16, "designator_type": 1,
                                             "designator": {"t10_vendor_id": {"$hex": b"VERIF   ".hex()}, "vendor_specific_id": {"$b": [rng.randrange(50), 8]}}}
    elif r < 0.92:
        d["target_descriptor_parameters"] = {"association": 0, "code_set": 1, "designator_length": 8, "designator_type": 3,
                                             "designator": {"naa": 5, "ieee_company_id": company, "vendor_specific_identifier": rng.randrange(1 << 36)}}
    else:
        d["target_descriptor_parameters"] = {"association": 0, "code_set": 1, "designator_length": 4, "designator_type": 0,
                                             "designator": {"vendor_specific": {"$b": [rng.randrange(50), 4]}}}
    return d


# the names SPC-4 / SPC-5 give the two descriptor types used here (a descriptor type may be given by name instead of by code)
TGT_NAME = {4: "Identification descriptor target descriptor", 5: "Identification Descriptor CSCD descriptor"}
SEG_NAME = "block -> block"


def _named(rng, descs, name):
    for d in descs:
        if rng.random() < 0.3:
            d["descriptor_type_code"] = name
    return descs


def g_xcopy4(rng, cfg):
    kw = {}
    nt = 0
    if rng.random() < 0.7:
        nt = rng.randrange(4)
        kw["target_descriptor_list"] = _named(rng, [tgt_desc(rng) for _ in range(nt)], TGT_NAME[4])
    if rng.random() < 0.7:
        segs = []
        for _ in range(rng.randrange(3)):
            s = _copy(SEG_B2B)
            s["block_device_number_of_blocks"] = rng.randrange(1 << 16)
            if nt:
                # segments refer to the descriptors of this very command by index
                s["source_target_descriptor_id"] = rng.randrange(nt)
                s["destination_target_descriptor_id"] = rng.randrange(nt)
            segs.append(s)
        kw["segment_descriptor_list"] = _named(rng, segs, SEG_NAME)
    if rng.random() < 0.4:
        kw["list_identifier"] = rng.randrange(256)
    if rng.random() < 0.4:
        kw["priority"] = rng.randrange(8)
    if rng.random() < 0.3:
        kw["inline_data"] = {"$b": [rng.randrange(1000), rng.choice([0, 1, 4, 6, 9])]}
    if rng.random() < 0.2:
        kw["nrcr"] = 1
    if rng.random() < 0.2:
        kw["sequential_striped"] = 1
    return [], kw


def _spc5(d):
    """SPC-5 renamed 'target' to 'cscd' in the descriptor keys"""
    return {k.replace("target_descriptor", "cscd_descriptor"): v for k, v in _copy(d).items()}


def g_xcopy5(rng, cfg):
    kw = {}
    nt = 0
    if rng.random() < 0.7:
        nt = rng.randrange(4)
        kw["cscd_descriptor_list"] = _named(rng, [_spc5(tgt_desc(rng)) for _ in range(nt)], TGT_NAME[5])
    if rng.random() < 0.7:
        segs = []
        for _ in range(rng.randrange(3)):
            s = _spc5(SEG_B2B)
            if nt:
                s["source_cscd_descriptor_id"] = rng.randrange(nt)
                s["destination_cscd_descriptor_id"] = rng.randrange(nt)
            segs.append(s)
        kw["segment_descriptor_list"] = _named(rng, segs, SEG_NAME)
    if rng.random() < 0.3:
        kw["inline_data"] = {"$b": [rng.randrange(1000), rng.choice([0, 1, 4, 6, 9])]}
    if rng.random() < 0.4:
        kw["list_identifier"] = rng.randrange(1 << 16)
    if rng.random() < 0.4:
        kw["priority"] = rng.randrange(8)
    if rng.random() < 0.2:
        kw["immed"] = 1
    if rng.random() < 0.2:
        kw["g_sense"] = 1
    if rng.random() < 0.2:
        kw["list_id_usage"] = rng.randrange(4)
    return [], kw


# ---- changer
def g_move(rng, cfg):
    kw = {}
    if rng.random() < 0.3:
        kw["invert"] = 1
    src = rng.choice([0x100, 0x101, 0x102])
    dst = rng.choice([0x103, 0x104, 0x105, 0x300, 0x301, 0x200])
    return [0, src, dst], kw


def g_exchange(rng, cfg):
    kw = {}
    if rng.random() < 0.3:
        kw["inv1"] = 1
    if rng.random() < 0.3:
        kw["inv2"] = 1
    return [0, 0x100, 0x101, rng.choice([0x100, 0x104, 0x105])], kw


def g_position(rng, cfg):
    kw = {}
    if rng.random() < 0.3:
        kw["invert"] = 1
    return [0, rng.choice([0x100, 0x105, 0x300, 0x200])], kw


def g_iesr(rng, cfg):
    kw = {}
    if rng.random() < 0.4:
        kw["rng"] = 1
    if rng.random() < 0.4:
        kw["fast"] = 1
    return [rng.choice([0, 0x100, 0x102]), rng.choice([0, 1, 6, 0xFFFF])], kw


def g_res(rng, cfg):
    kw = {}
    if rng.random() < 0.5:
        kw["element_type"] = rng.randrange(5)
    if rng.random() < 0.4:
        kw["voltag"] = 1
    if rng.random() < 0.3:
        kw["curdata"] = rng.randrange(2)
    if rng.random() < 0.3:
        kw["dvcid"] = rng.randrange(2)
    a = _alloc(rng, 16384, small=(0, 7, 8, 15, 16, 40, 255))
    if a is not None:
        kw["alloclen"] = a
    return [rng.choice([0, 0, 0x100, 0x102, 0x300]), rng.choice([0, 1, 3, 100, 0xFFFF])], kw


def g_openclose(rng, cfg):
    return [0x200, rng.randrange(2)], {}


def g_prevent(rng, cfg):
    kw = {}
    if rng.random() < 0.6:
        kw["prevent"] = rng.randrange(4)
    return [], kw


# ---- mmc
def g_readcd(rng, cfg):
    kw = {}
    est = rng.choice([1, 2, 3, 4, 5])
    combos = {1: [0x02, 0x1F, 0x00], 2: [0x02, 0x06, 0x16, 0x17, 0x03], 3: [0x02, 0x06, 0x16],
              4: [0x02, 0x0A, 0x0B, 0x1F], 5: [0x02, 0x0A, 0x0B]}
    if rng.random() < 0.85:
        kw["est"] = est
        kw["mcsb"] = rng.choice(combos[est])
        kw["c2ei"] = rng.choice([0, 0, 1, 2])
        kw["scsb"] = rng.choice([0, 0, 2, 4])
        if rng.random() < 0.3:
            kw["dap"] = 1
    return [biased(rng, 32, hi=60000), rng.choice([0, 1, 1, 2, 3])], kw


def g_rdi(rng, cfg):
    kw = {}
    if rng.random() < 0.5:
        kw["alloc_len"] = rng.choice([0, 2, 3, 12, 34, 4096])
    return [rng.randrange(3)], kw


def g_none(rng, cfg):
    return [], {}


# method -> (LU kinds that accept it, generator, sends-data-in?)
METHODS = {
    "inquiry": ((BLOCK, CHANGER, MMC, ANY), g_inquiry),
    "testunitready": ((BLOCK, CHANGER, MMC, ANY), g_none),
    "reportluns": ((BLOCK, CHANGER, MMC, ANY), g_reportluns),
    "preventallowmediumremoval": ((BLOCK, CHANGER, MMC), g_prevent),
    "modesense6": ((BLOCK, CHANGER), g_modesense(False)),
    "modesense10": ((BLOCK, CHANGER), g_modesense(True)),
    "modeselect6": ((BLOCK,), g_modeselect),
    "modeselect10": ((BLOCK,), g_modeselect),
    "read10": ((BLOCK, MMC), g_read(32)),
    "read12": ((BLOCK, MMC), g_read(32)),
    "read16": ((BLOCK,), g_read(64)),
    "write10": ((BLOCK, MMC), g_write(32)),
    "write12": ((BLOCK, MMC), g_write(32)),
    "write16": ((BLOCK,), g_write(64)),
    "writesame10": ((BLOCK,), g_writesame(32, False)),
    "writesame16": ((BLOCK,), g_writesame(64, True)),
    "synchronizecache10": ((BLOCK,), g_sync(32, 16)),
    "synchronizecache16": ((BLOCK,), g_sync(64, 32)),
    "readcapacity10": ((BLOCK,), g_alloc_kw("alloclen", 8)),
    "readcapacity16": ((BLOCK,), g_alloc_kw("alloclen", 32)),
    "getlbastatus": ((BLOCK,), g_getlbastatus),
    "reporttargetportgroups": ((BLOCK, CHANGER), g_rtpg),
    "reportpriority": ((BLOCK, CHANGER), g_reportpriority),
    "persistentreservein": ((BLOCK, CHANGER), g_prin),
    "persistentreserveout": ((BLOCK, CHANGER), g_prout),
    "atapassthrough12": ((BLOCK,), g_ata(False)),
    "atapassthrough16": ((BLOCK,), g_ata(True)),
    "extendedcopy4": ((BLOCK, CHANGER), g_xcopy4),
    "extendedcopy5": ((BLOCK, CHANGER), g_xcopy5),
    "movemedium": ((CHANGER,), g_move),
    "exchangemedium": ((CHANGER,), g_exchange),
    "positiontoelement": ((CHANGER,), g_position),
    "initializeelementstatus": ((CHANGER,), g_none),
    "initializeelementstatuswithrange": ((CHANGER,), g_iesr),
    "readelementstatus": ((CHANGER,), g_res),
    "opencloseimportexportelement": ((CHANGER,), g_openclose),
    "readcd": ((MMC,), g_readcd),
    "readdiscinformation": ((MMC,), g_rdi),
}
assert len(METHODS) == 38

KIND_TYPE = {BLOCK: 0x00, CHANGER: 0x08, MMC: 0x05, ANY: 0x03}


def methods_for(kind):
    return sorted(m for m, (kinds, _) in METHODS.items() if kind in kinds)


def default_cfg(kind, bs=512, nblocks=1 << 20):
    if kind == MMC:
        return {"kind": kind, "bs": 2048, "nblocks": 1 << 16}
    return {"kind": kind, "bs": bs, "nblocks": nblocks}


def gen_call(rng, method, cfg):
    args, kw = METHODS[method][1](rng, cfg)
    return {"m": method, "args": args, "kw": kw}
