"""Building simulated worlds: LUs behind the two transports and library
device objects attached to them."""

from t10 import targets as T

from . import facade as F
from .seams import WORLD

SG_PATH = "/dev/sg0"
ISCSI_URL = "iscsi://10.0.0.1:3260/iqn.2026-10.verif:tgt0/0"
ISCSI_KEY = ("10.0.0.1:3260", "iqn.2026-10.verif:tgt0", 0)


def make_lu(cfg, ident=0):
    kind = cfg["kind"]
    if kind == F.BLOCK and cfg.get("dev_type", 0) == 5:
        return T.MmcLU(5, cfg.get("qualifier", 0), ident, num_blocks=cfg["nblocks"])
    if kind == F.BLOCK and cfg.get("dev_type", 0) not in (0, 4, 7, 0x0E):
        return T.GenericLU(cfg["dev_type"], cfg.get("qualifier", 0), ident)
    if kind == F.BLOCK:
        return T.BlockLU(cfg.get("dev_type", 0), cfg.get("qualifier", 0), ident, block_size=cfg["bs"], num_blocks=cfg["nblocks"])
    if kind == F.CHANGER:
        return T.ChangerLU(8, cfg.get("qualifier", 0), ident)
    if kind == F.MMC:
        return T.MmcLU(5, cfg.get("qualifier", 0), ident, num_blocks=cfg["nblocks"])
    return T.GenericLU(cfg.get("dev_type", 3), cfg.get("qualifier", 0), ident)


def lib():
    """the library's public pieces, imported lazily (after seams are installed)"""
    from pyscsi.pyiscsi.iscsi_device import ISCSIDevice
    from pyscsi.pyscsi.scsi import SCSI
    from pyscsi.pyscsi.scsi_device import SCSIDevice
    return SCSI, SCSIDevice, ISCSIDevice


def open_device(transport, lu, path=None, **kw):
    SCSI, SCSIDevice, ISCSIDevice = lib()
    if transport == "sgio":
        path = path or SG_PATH
        if path not in WORLD.nodes:
            WORLD.plug(path, lu)
        return SCSIDevice(path, **kw)
    WORLD.iscsi_targets[ISCSI_KEY] = lu
    return ISCSIDevice(path or ISCSI_URL, kw.get("initiator_name", "iqn.2026-10.verif:init"))


def outcome_of(fn):
    """run fn(); -> ('ok', value) or ('exc', exception)"""
    try:
        return "ok", fn()
    except BaseException as e:  # noqa - the oracle classifies everything
        if isinstance(e, (KeyboardInterrupt, SystemExit, MemoryError)):
            raise
        return "exc", e


def exc_name(e):
    return type(e).__name__
