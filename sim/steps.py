"""Step meter: counts source-line events executed inside the library and
aborts the traced code when a budget is exhausted.  The count is a
deterministic function of the code and its input - the simulator's notion of
'amount of work' (there is no clock in the library)."""

import sys


class StepBudgetExceeded(BaseException):
    """raised inside the library frame that exhausts the budget"""


class Meter:
    def __init__(self, prefix):
        self.prefix = prefix
        self.count = 0
        self.budget = None
        self.total = 0
        self.exceeded_at = None

    def _global(self, frame, event, arg):
        if frame.f_code.co_filename.startswith(self.prefix):
            return self._local
        return None

    def _local(self, frame, event, arg):
        if event == "line":
            self.count += 1
            if self.budget is not None and self.count > self.budget:
                if self.exceeded_at is None:
                    self.exceeded_at = "%s:%d" % (frame.f_code.co_filename[len(self.prefix):], frame.f_lineno or 0)
                raise StepBudgetExceeded("budget of %d line steps exhausted at %s" % (self.budget, self.exceeded_at))
        return self._local

    def run(self, fn, budget):
        """-> (kind, value, steps): kind in ok/exc/budget"""
        self.count = 0
        self.budget = budget
        self.exceeded_at = None
        old = sys.gettrace()
        sys.settrace(self._global)
        try:
            try:
                v = fn()
                kind = "ok"
            except StepBudgetExceeded as e:
                kind, v = "budget", e
            except (KeyboardInterrupt, SystemExit):
                raise
            except BaseException as e:  # noqa - any exception is an acceptable way to refuse hostile data
                kind, v = "exc", e
        finally:
            sys.settrace(old)
        self.total += self.count
        return kind, v, self.count
