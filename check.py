#!/venv/bin/python
"""Entry point: check.py <PROPERTY-ID> [--tier quick|thorough] [--replay FILE] [--repo /repo]

exit 0: the property held on everything explored
exit 1: VIOLATION property=<id> replay=<path>
exit 2: HARNESS-ERROR (a defect of the checking machinery, never a verdict)"""
import importlib
import os
import sys

sys.dont_write_bytecode = True
HERE = os.path.dirname(os.path.abspath(__file__))
sys.path.insert(0, HERE)

from sim import core  # noqa: E402


def main():
    if len(sys.argv) < 2 or sys.argv[1].startswith("-"):
        print(__doc__)
        return 2
    core.ensure_hashseed()
    pid = sys.argv[1].upper()
    try:
        prop = importlib.import_module("props.%s" % pid.lower())
    except ImportError as e:
        print("HARNESS-ERROR no check for property %s: %r" % (pid, e))
        return 2
    return core.check_main(prop, sys.argv[2:])


if __name__ == "__main__":
    try:
        rc = main()
    except SystemExit:
        raise
    except BaseException:
        import traceback
        print("HARNESS-ERROR uncaught exception in the checker:\n" + traceback.format_exc())
        rc = 2
    sys.stdout.flush()
    try:
        import atexit
        atexit._run_exitfuncs()      # scratch directories of a check are removed here (os._exit below skips the normal shutdown)
    except BaseException:
        pass
    os._exit(rc)
