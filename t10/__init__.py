"""Independent transcription of the parts of SPC/SBC/SMC/MMC/SAT the simulated
targets and oracles need.  NOTHING in this package imports pyscsi: a wrong
table in the library must not be copied into the oracle."""
