"""Simulated SCSI logical units, written from the standards.  Never imports
pyscsi.  execute(cdb, dataout, xfer_in) -> (status, sense, datain)."""

import hashlib

from . import cdb as C
from . import resp as R
from . import sense as S


def cc(key, asc, ascq, **kw):
    return (S.CHECK_CONDITION, S.fixed(key, asc, ascq, **kw), b"")


ILLEGAL_OPCODE = (5, 0x20, 0x00)
LBA_OUT_OF_RANGE = (5, 0x21, 0x00)
INVALID_FIELD_CDB = (5, 0x24, 0x00)
INVALID_FIELD_PARAM = (5, 0x26, 0x00)
PARAM_LIST_LEN = (5, 0x1A, 0x00)
DATA_PHASE_ERROR = (0xB, 0x4B, 0x00)


def good(data=b""):
    return (S.GOOD, b"", bytes(data))


class LU:
    dev_type = 0x1F
    qualifier = 0
    vendor = "VERIF"
    product = "GENERIC LU"
    revision = "0001"
    serial = "SN000000"
    rmb = 0

    def __init__(self, dev_type=None, qualifier=0, ident=0):
        if dev_type is not None:
            self.dev_type = dev_type
        self.qualifier = qualifier
        self.ident = ident
        self.serial = "SN%06d" % ident
        self.product = "%s %d" % (self.product, ident)
        self.log = []          # (name, decoded fields) of every command received
        self.unit_attention = None
        # world wide names of this logical unit: NAA-6 (company, vendor specific, extension) and NAA-5 (company, 36-bit vendor specific)
        self.naa6 = (0x589CFC, ident & 0xFFFF, 0xC482A5D4F1E2B3A5 ^ ident)
        self.naa5 = (0x0050C2, (0xF5A000000 + ident * 0x1234567) & 0xFFFFFFFFF)

    # -- helpers
    def vpd_pages(self):
        return {
            0x00: lambda: None,
            0x80: lambda: R.vpd_serial(self.dev_type, self.serial),
            0x83: lambda: R.vpd_device_id(self.dev_type, [
                R.designation_descriptor(1, 0, 3, R.naa6(*self.naa6)),
                R.designation_descriptor(2, 0, 1, R.pad_ascii(self.vendor, 8) + self.serial.encode()),
                R.designation_descriptor(1, 0, 3, R.be((5 << 60) | (self.naa5[0] << 36) | self.naa5[1], 8)),
                R.designation_descriptor(1, 1, 4, bytes([0, 0, 0, 1]), piv=1, proto=5),
                R.designation_descriptor(1, 1, 5, bytes([0, 0, 0, 2]), piv=1, proto=5),
                R.designation_descriptor(3, 2, 8, b"iqn.2026-10.verif:sim%d\0\0\0" % self.ident, piv=1, proto=5),
            ]),
        }

    inq_len = 96

    def std_inquiry(self):
        return R.std_inquiry(self.dev_type, self.qualifier, rmb=self.rmb, vendor=self.vendor,
                             product=self.product, revision=self.revision, length=self.inq_len)

    def inquiry(self, f):
        if not f["evpd"]:
            if f["page_code"]:
                return cc(*INVALID_FIELD_CDB)
            return good(self.std_inquiry()[:f["alloc"]])
        pages = self.vpd_pages()
        if f["page_code"] not in pages:
            return cc(*INVALID_FIELD_CDB)
        if f["page_code"] == 0:
            data = R.vpd_supported(self.dev_type, pages.keys())
        else:
            data = pages[f["page_code"]]()
        return good(data[:f["alloc"]])

    def report_luns(self, f):
        if f["select_report"] not in (0, 1, 2, 0x10, 0x11, 0x12):
            return cc(*INVALID_FIELD_CDB)
        return good(R.report_luns(self.luns())[:f["alloc"]])

    def luns(self):
        return [0]

    def state_digest(self):
        return "-"

    handlers = {"INQUIRY": "inquiry", "TEST_UNIT_READY": "tur", "REPORT_LUNS": "report_luns"}

    def tur(self, f):
        return good()

    def execute(self, cdb, dataout=b"", xfer_in=0):
        cdb = bytes(cdb)
        name = C.identify(cdb)
        want = C.cdb_len(cdb[0]) if cdb else None
        if name is None or want is None or len(cdb) != want:
            self.log.append(("?", {"cdb": cdb.hex()}))
            st = cc(*ILLEGAL_OPCODE)
            if getattr(self, "d_sense", False):
                return (st[0], S.descriptor(*ILLEGAL_OPCODE), b"")
            return st
        f = C.decode(name, cdb)
        self.log.append((name, f))
        if self.unit_attention is not None and name not in ("INQUIRY", "REPORT_LUNS", "REQUEST_SENSE"):
            # a pending unit attention condition is reported instead of executing the command (SAM-5 5.14), once
            ua, self.unit_attention = self.unit_attention, None
            if getattr(self, "d_sense", False):
                return (S.CHECK_CONDITION, S.descriptor(*ua), b"")
            return cc(*ua)
        meth = self.handlers.get(name)
        if meth is None:
            return cc(*ILLEGAL_OPCODE)
        self._dataout = bytes(dataout or b"")
        self._xfer_in = xfer_in
        self._cdb = cdb
        status, sense, data = getattr(self, meth)(f)
        if status == S.CHECK_CONDITION and getattr(self, "d_sense", False) and sense and (sense[0] & 0x7F) == 0x70:
            # control mode page D_SENSE=1: the logical unit reports descriptor format sense data
            d = S.decode(sense)
            sense = S.descriptor(d["key"], d["asc"], d["ascq"])
        return status, sense, data


class GenericLU(LU):
    pass


class BlockLU(LU):
    dev_type = 0
    product = "BLOCK LU"

    handlers = dict(LU.handlers)
    handlers.update({
        "READ_10": "read", "READ_12": "read", "READ_16": "read",
        "WRITE_10": "write", "WRITE_12": "write", "WRITE_16": "write",
        "WRITE_SAME_10": "write_same", "WRITE_SAME_16": "write_same",
        "SYNCHRONIZE_CACHE_10": "sync", "SYNCHRONIZE_CACHE_16": "sync",
        "READ_CAPACITY_10": "readcap10", "READ_CAPACITY_16": "readcap16",
        "GET_LBA_STATUS": "get_lba_status",
        "MODE_SENSE_6": "mode_sense", "MODE_SENSE_10": "mode_sense",
        "MODE_SELECT_6": "mode_select", "MODE_SELECT_10": "mode_select",
        "PERSISTENT_RESERVE_IN": "pr_in", "PERSISTENT_RESERVE_OUT": "pr_out",
        "REPORT_TARGET_PORT_GROUPS": "rtpg", "REPORT_PRIORITY": "report_priority",
        "ATA_PASS_THROUGH_12": "ata", "ATA_PASS_THROUGH_16": "ata",
        "PREVENT_ALLOW_MEDIUM_REMOVAL": "prevent", "EXTENDED_COPY": "xcopy",
    })

    MAX_WS_IMPLICIT = 1 << 16

    def __init__(self, dev_type=0, qualifier=0, ident=0, block_size=512, num_blocks=1 << 20):
        super().__init__(dev_type, qualifier, ident)
        self.bs = block_size
        self.nblocks = num_blocks
        self.blocks = {}
        self.pr_key = None
        self.pr_gen = 0
        self.pr_holder = None
        self.mode = {0x0A: bytearray(R.control_page()[2:]), 0x02: bytearray(R.disconnect_reconnect_page(max_burst=64)[2:])}
        self.prevent_state = 0
        self.xcopies = []
        self.ata_log = []
        # READ CAPACITY(16) geometry/protection fields (SBC-3 5.16.2)
        self.geom = dict(p_type=0, prot_en=0, p_i_exp=0, lbppbe=3, lbpme=1, lbprz=0, lowest_aligned=5)

    def state_digest(self):
        h = hashlib.sha256()
        for k in sorted(self.blocks):
            h.update(k.to_bytes(8, "big"))
            h.update(self.blocks[k])
        h.update(repr((self.pr_key, self.pr_gen, self.pr_holder, self.prevent_state, len(self.xcopies), len(self.ata_log))).encode())
        for k in sorted(self.mode):
            h.update(bytes(self.mode[k]))
        return h.hexdigest()[:16]

    def vpd_pages(self):
        p = super().vpd_pages()
        p[0xB0] = lambda: R.vpd_block_limits(self.dev_type, max_xfer=0xFFFF, opt_xfer=128, max_unmap_lba=0x1000,
                                             max_unmap_bd=4, opt_unmap_gran=8, ugavalid=1, unmap_align=3,
                                             max_ws=self.MAX_WS_IMPLICIT, max_caw=1, otlg=8)
        p[0xB1] = lambda: R.vpd_block_dev_char(self.dev_type, rotation=7200, form_factor=3)
        p[0xB2] = lambda: R.vpd_lbp(self.dev_type, threshold_exponent=4, lbpu=1, lbpws=1, provisioning_type=2)
        p[0x86] = lambda: R.vpd_extended_inquiry(self.dev_type, b4=0x07, b5=0x17, b6=0x01)
        p[0xB3] = lambda: R.vpd_referrals(self.dev_type, 0x100, 2)
        p[0x89] = lambda: R.vpd_ata_information(self.dev_type)
        return p

    # -- block commands
    def _range_ok(self, lba, n):
        return lba + n <= self.nblocks

    def read(self, f):
        if self._dataout:
            return cc(*DATA_PHASE_ERROR)
        if not self._range_ok(f["lba"], f["tl"]):
            return cc(*LBA_OUT_OF_RANGE)
        zero = bytes(self.bs)
        # serve at most what the transport can take; never build giant strings
        nmax = min(f["tl"], (self._xfer_in + self.bs - 1) // self.bs) if self.bs else 0
        out = b"".join(self.blocks.get(f["lba"] + i, zero) for i in range(nmax))
        return good(out)

    def write(self, f):
        if len(self._dataout) != f["tl"] * self.bs:
            return cc(*DATA_PHASE_ERROR)
        if not self._range_ok(f["lba"], f["tl"]):
            return cc(*LBA_OUT_OF_RANGE)
        for i in range(f["tl"]):
            self.blocks[f["lba"] + i] = self._dataout[i * self.bs:(i + 1) * self.bs]
        return good()

    def write_same(self, f):
        ndob = f.get("ndob", 0)
        if f["anchor"] and not f["unmap"]:
            return cc(*INVALID_FIELD_CDB)
        if ndob:
            if self._dataout:
                return cc(*DATA_PHASE_ERROR)
            block = bytes(self.bs)
        else:
            if len(self._dataout) != self.bs:
                return cc(*DATA_PHASE_ERROR)
            block = self._dataout
        nb = f["nb"]
        if f["lba"] >= self.nblocks and (nb or f["lba"] > self.nblocks):
            return cc(*LBA_OUT_OF_RANGE)
        if nb == 0:
            nb = self.nblocks - f["lba"]
            if nb > self.MAX_WS_IMPLICIT:
                return cc(*INVALID_FIELD_CDB)
        if nb > self.MAX_WS_IMPLICIT:
            return cc(*INVALID_FIELD_CDB)
        if not self._range_ok(f["lba"], nb):
            return cc(*LBA_OUT_OF_RANGE)
        for i in range(nb):
            self.blocks[f["lba"] + i] = block
        return good()

    def sync(self, f):
        if not self._range_ok(f["lba"], f["numblks"]):
            return cc(*LBA_OUT_OF_RANGE)
        return good()

    def readcap10(self, f):
        return good(R.read_capacity10(self.nblocks - 1, self.bs))

    def readcap16(self, f):
        return good(R.read_capacity16(self.nblocks - 1, self.bs, **self.geom)[:f["alloc"]])

    def get_lba_status(self, f):
        lba = f["lba"]
        if lba >= self.nblocks:
            return cc(*LBA_OUT_OF_RANGE)
        descs = []
        keys = sorted(k for k in self.blocks if k >= lba)
        cur = lba
        while cur < self.nblocks and len(descs) < 8:
            if cur in self.blocks:
                end = cur
                while end in self.blocks and end < self.nblocks:
                    end += 1
                descs.append((cur, min(end - cur, 0xFFFFFFFF), 0))
                cur = end
            else:
                nxt = next((k for k in keys if k > cur), self.nblocks)
                n = min(nxt - cur, 0xFFFFFFFF)
                descs.append((cur, n, 1))
                cur += n
        return good(R.get_lba_status(descs)[:f["alloc"]])

    # -- mode pages
    def _pages(self, page_code, sub):
        if sub not in (0, 0xFF):
            return None
        if page_code == 0x3F:
            codes = sorted(self.mode)
        elif page_code in self.mode:
            codes = [page_code]
        else:
            return None
        return [R.mode_page(c, self.mode[c]) for c in codes]

    def _block_descriptor(self):
        return R.be(min(self.nblocks, 0xFFFFFFFF), 4) + bytes(1) + R.be(self.bs & 0xFFFFFF, 3)

    def mode_sense(self, f):
        pages = self._pages(f["page_code"], f["sub_page_code"])
        if pages is None:
            return cc(*INVALID_FIELD_CDB)
        if f["pc"] == 1:  # changeable: all bits changeable
            pages = [p[:2] + b"\xff" * (len(p) - 2) for p in pages]
        bd = b"" if f["dbd"] else self._block_descriptor()
        if "llbaa" in f:
            data = R.mode_sense10(pages, dev_specific=0x10, block_descriptors=bd)
        else:
            data = R.mode_sense6(pages, dev_specific=0x10, block_descriptors=bd)
        return good(data[:f["alloc"]])

    def mode_select(self, f):
        data = self._dataout
        if len(data) != f["pll"]:
            return cc(*DATA_PHASE_ERROR)
        ten = len(self._cdb) == 10
        hdr = 8 if ten else 4
        if len(data) == 0:
            return good()
        if len(data) < hdr:
            return cc(*PARAM_LIST_LEN)
        bdl = int.from_bytes(data[6:8], "big") if ten else data[3]
        rest = data[hdr + bdl:]
        updates = {}
        while rest:
            if len(rest) < 2:
                return cc(*PARAM_LIST_LEN)
            code = rest[0] & 0x3F
            if rest[0] & 0x40:
                if len(rest) < 4:
                    return cc(*PARAM_LIST_LEN)
                ln = int.from_bytes(rest[2:4], "big")
                body, rest = rest[4:4 + ln], rest[4 + ln:]
                return cc(*INVALID_FIELD_PARAM)
            ln = rest[1]
            body, rest = rest[2:2 + ln], rest[2 + ln:]
            if code not in self.mode or len(body) != len(self.mode[code]):
                return cc(*INVALID_FIELD_PARAM)
            updates[code] = bytearray(body)
        self.mode.update(updates)
        return good()

    # -- persistent reservations (single I_T nexus)
    def pr_in(self, f):
        sa = f["service_action"]
        if sa == 0:
            data = R.pr_read_keys(self.pr_gen, [self.pr_key] if self.pr_key is not None else [])
        elif sa == 1:
            data = R.pr_read_reservation(self.pr_gen, (self.pr_key,) + self.pr_holder if self.pr_holder else None)
        elif sa == 2:
            data = R.pr_report_capabilities()
        elif sa == 3:
            descs = []
            if self.pr_key is not None:
                descs.append(dict(key=self.pr_key, holder=bool(self.pr_holder),
                                  scope=self.pr_holder[0] if self.pr_holder else 0,
                                  type=self.pr_holder[1] if self.pr_holder else 0, rtpi=1,
                                  tid=R.transport_id_iscsi("iqn.2026-10.verif:initiator", "00023d000001")))
                descs.append(dict(key=self.pr_key ^ 1, rtpi=2, tid=R.transport_id_sas(b"\x50\x01\x02\x03\x04\x05\x06\x07")))
            data = R.pr_read_full_status(self.pr_gen, descs)
        else:
            return cc(*INVALID_FIELD_CDB)
        return good(data[:f["alloc"]])

    def pr_out(self, f):
        data = self._dataout
        if len(data) != f["pll"]:
            return cc(*DATA_PHASE_ERROR)
        if len(data) < 24:
            return cc(*PARAM_LIST_LEN)
        rk = int.from_bytes(data[0:8], "big")
        sark = int.from_bytes(data[8:16], "big")
        sa = f["service_action"]
        if sa in (0, 6):  # REGISTER / REGISTER AND IGNORE EXISTING KEY
            if sa == 0:
                if self.pr_key is None and rk != 0:
                    return (S.RESERVATION_CONFLICT, b"", b"")
                if self.pr_key is not None and rk != self.pr_key:
                    return (S.RESERVATION_CONFLICT, b"", b"")
            if sark == 0:
                if self.pr_key is not None:
                    self.pr_key = None
                    self.pr_holder = None
                    self.pr_gen += 1
            else:
                self.pr_key = sark
                self.pr_gen += 1
            return good()
        if self.pr_key is None or rk != self.pr_key:
            return (S.RESERVATION_CONFLICT, b"", b"")
        if sa == 1:
            if self.pr_holder and self.pr_holder != (f["scope"], f["pr_type"]):
                return (S.RESERVATION_CONFLICT, b"", b"")
            self.pr_holder = (f["scope"], f["pr_type"])
        elif sa == 2:
            if self.pr_holder and self.pr_holder != (f["scope"], f["pr_type"]):
                return cc(5, 0x26, 0x04)
            self.pr_holder = None
        elif sa == 3:
            self.pr_key = None
            self.pr_holder = None
            self.pr_gen += 1
        elif sa in (4, 5):
            self.pr_gen += 1
            self.pr_holder = (f["scope"], f["pr_type"])
        elif sa == 7:
            self.pr_gen += 1
        else:
            return cc(*INVALID_FIELD_CDB)
        return good()

    def rtpg(self, f):
        groups = [dict(aas=0, pref=1, support=0x8F, tpg=1, status=2, ports=[1, 2]),
                  dict(aas=1, support=0x8F, tpg=2, ports=[3])]
        return good(R.rtpg(groups, extended=(f["data_format"] == 1), implicit_time=9)[:f["alloc"]])

    def report_priority(self, f):
        return good(R.report_priority([(3, 1, R.transport_id_sas(b"\x50\x01\x02\x03\x04\x05\x06\x07"))])[:f["alloc"]])

    def ata(self, f):
        self.ata_log.append(dict(f))
        if f["ck_cond"]:
            # SAT: ATA PASS THROUGH INFORMATION AVAILABLE, descriptor sense
            sense = bytes([0x72, 0x01, 0x00, 0x1D, 0, 0, 0, 14, 0x09, 0x0C, 0, 0, 0, f["count"] & 0xFF, 0,
                           0, 0, 0, 0, 0, f["device"], 0x50])
            return (S.CHECK_CONDITION, sense, bytes(self._xfer_in) if f["t_dir"] else b"")
        if f["t_dir"]:
            return good(bytes((i * 13 + 7) & 0xFF for i in range(min(self._xfer_in, 8192))))
        return good()

    def prevent(self, f):
        self.prevent_state = f["prevent"]
        return good()

    def xcopy(self, f):
        if len(self._dataout) != f["pll"]:
            return cc(*DATA_PHASE_ERROR)
        self.xcopies.append(self._dataout)
        return good()


class ChangerLU(LU):
    dev_type = 8
    product = "CHANGER LU"
    handlers = dict(LU.handlers)
    handlers.update({
        "MOVE_MEDIUM": "move", "EXCHANGE_MEDIUM": "exchange", "POSITION_TO_ELEMENT": "position",
        "INITIALIZE_ELEMENT_STATUS": "ies", "INITIALIZE_ELEMENT_STATUS_WITH_RANGE": "iesr",
        "READ_ELEMENT_STATUS": "res", "OPEN_CLOSE_IMPORT_EXPORT_ELEMENT": "openclose",
        "PREVENT_ALLOW_MEDIUM_REMOVAL": "prevent", "MODE_SENSE_6": "mode_sense", "MODE_SENSE_10": "mode_sense",
        "PERSISTENT_RESERVE_IN": "pr_in", "PERSISTENT_RESERVE_OUT": "pr_out",
        "REPORT_TARGET_PORT_GROUPS": "rtpg", "REPORT_PRIORITY": "report_priority",
        "MODE_SELECT_6": "mode_select", "MODE_SELECT_10": "mode_select", "EXTENDED_COPY": "xcopy",
    })
    MT, ST, IE, DT = 1, 2, 3, 4
    BASE = {1: 0x0000, 2: 0x0100, 3: 0x0200, 4: 0x0300}

    def __init__(self, dev_type=8, qualifier=0, ident=0, n_storage=6, n_ie=1, n_dt=2):
        super().__init__(dev_type, qualifier, ident)
        self.count = {1: 1, 2: n_storage, 3: n_ie, 4: n_dt}
        self.full = {}
        for i in range(n_storage // 2):
            self.full[0x100 + i] = "VOL%03d" % i
        self.position_at = None
        self.ie_open = False
        self.prevent_state = 0
        self.inits = 0
        # reuse the block LU's PR / mode machinery through a helper object
        self._blk = BlockLU(dev_type, 0, ident)
        self._blk.mode = {0x1D: bytearray(R.element_address_page(0, 1, 0x100, n_storage, 0x200, n_ie, 0x300, n_dt)[2:]),
                          0x0A: bytearray(R.control_page()[2:])}

    def state_digest(self):
        return hashlib.sha256(repr((sorted(self.full.items()), self.position_at, self.ie_open,
                                    self.prevent_state, self.inits, self._blk.state_digest())).encode()).hexdigest()[:16]

    def _delegate(self, meth, f):
        b = self._blk
        b._dataout, b._xfer_in, b._cdb = self._dataout, self._xfer_in, self._cdb
        return getattr(b, meth)(f)

    def mode_sense(self, f):
        f = dict(f)
        f["dbd"] = 1
        return self._delegate("mode_sense", f)

    def mode_select(self, f):
        return self._delegate("mode_select", f)

    def pr_in(self, f):
        return self._delegate("pr_in", f)

    def pr_out(self, f):
        return self._delegate("pr_out", f)

    def rtpg(self, f):
        return self._delegate("rtpg", f)

    def report_priority(self, f):
        return self._delegate("report_priority", f)

    def xcopy(self, f):
        return self._delegate("xcopy", f)

    def _etype(self, addr):
        for t, base in self.BASE.items():
            if base <= addr < base + self.count[t]:
                return t
        return None

    def move(self, f):
        if self._etype(f["xfer"]) != self.MT and f["xfer"] != 0:
            return cc(5, 0x21, 0x01)
        if self._etype(f["source"]) is None or self._etype(f["dest"]) is None:
            return cc(5, 0x21, 0x01)
        if f["source"] not in self.full:
            return cc(5, 0x3B, 0x0E)
        if f["dest"] in self.full and f["dest"] != f["source"]:
            return cc(5, 0x3B, 0x0D)
        self.full[f["dest"]] = self.full.pop(f["source"])
        return good()

    def exchange(self, f):
        for k in ("source", "dest1", "dest2"):
            if self._etype(f[k]) is None:
                return cc(5, 0x21, 0x01)
        if f["source"] not in self.full:
            return cc(5, 0x3B, 0x0E)
        if f["dest1"] not in self.full:
            return cc(5, 0x3B, 0x0E)
        if f["dest2"] in self.full and f["dest2"] not in (f["source"], f["dest1"]):
            return cc(5, 0x3B, 0x0D)
        a = self.full.pop(f["source"])
        b = self.full.pop(f["dest1"], None)
        self.full[f["dest1"]] = a
        if b is not None:
            self.full[f["dest2"]] = b
        return good()

    def position(self, f):
        if self._etype(f["dest"]) is None:
            return cc(5, 0x21, 0x01)
        self.position_at = f["dest"]
        return good()

    def ies(self, f):
        self.inits += 1
        return good()

    def iesr(self, f):
        if f["range"] and self._etype(f["xfer"]) is None:
            return cc(5, 0x21, 0x01)
        self.inits += 1
        return good()

    def openclose(self, f):
        if self._etype(f["xfer"]) != self.IE:
            return cc(5, 0x21, 0x01)
        if f["acode"] == 0:
            self.ie_open = True
        elif f["acode"] == 1:
            self.ie_open = False
        else:
            return cc(*INVALID_FIELD_CDB)
        return good()

    def prevent(self, f):
        self.prevent_state = f["prevent"]
        return good()

    def res(self, f):
        types = [f["element_type"]] if f["element_type"] else [1, 2, 3, 4]
        if any(t not in self.BASE for t in types):
            return cc(*INVALID_FIELD_CDB)
        pages = []
        n = 0
        first = None
        for t in types:
            descs = []
            for i in range(self.count[t]):
                addr = self.BASE[t] + i
                if addr < f["start"] or n >= f["num"]:
                    continue
                n += 1
                if first is None:
                    first = addr
                vol = self.full.get(addr)
                descs.append(R.element_descriptor(
                    addr, full=vol is not None, access=1, svalid=vol is not None, src=addr,
                    pvoltag=(vol or "") if f["voltag"] else None,
                    flags2=(0x20 | 0x10) if t == self.IE else 0))
            if descs:
                pages.append(R.element_status_page(t, descs, pvoltag=f["voltag"]))
        data = R.read_element_status(first or 0, n, pages)
        return good(data[:f["alloc"]])


class MmcLU(LU):
    dev_type = 5
    rmb = 1
    product = "CD/DVD LU"
    handlers = dict(LU.handlers)
    handlers.update({
        "READ_CD": "read_cd", "READ_DISC_INFORMATION": "rdi", "READ_10": "read", "READ_12": "read",
        "WRITE_10": "write", "WRITE_12": "write", "READ_CAPACITY_10": "readcap10",
        "PREVENT_ALLOW_MEDIUM_REMOVAL": "prevent", "MODE_SELECT_10": "mode_select", "SYNCHRONIZE_CACHE_10": "sync",
    })

    def __init__(self, dev_type=5, qualifier=0, ident=0, num_blocks=1 << 16):
        super().__init__(dev_type, qualifier, ident)
        self._blk = BlockLU(dev_type, 0, ident, block_size=2048, num_blocks=num_blocks)
        self.prevent_state = 0

    def state_digest(self):
        return self._blk.state_digest() + str(self.prevent_state)

    # the medium, as a block device sees it (2048-byte sectors)
    @property
    def blocks(self):
        return self._blk.blocks

    @blocks.setter
    def blocks(self, v):
        self._blk.blocks = v

    @property
    def bs(self):
        return self._blk.bs

    @property
    def nblocks(self):
        return self._blk.nblocks

    def _delegate(self, meth, f):
        b = self._blk
        b._dataout, b._xfer_in, b._cdb = self._dataout, self._xfer_in, self._cdb
        return getattr(b, meth)(f)

    def read(self, f):
        return self._delegate("read", f)

    def write(self, f):
        return self._delegate("write", f)

    def readcap10(self, f):
        return self._delegate("readcap10", f)

    def sync(self, f):
        return self._delegate("sync", f)

    def mode_select(self, f):
        return self._delegate("mode_select", f)

    def prevent(self, f):
        self.prevent_state = f["prevent"]
        return good()

    @staticmethod
    def sector_len(f):
        """bytes per sector READ CD returns for the selection fields (MMC-6
        table 354, simplified: the requested parts are concatenated)"""
        est, m = f["est"], f["mcsb"]
        n = 0
        if m & 0x10:
            n += 12
        if m & 0x04:
            n += 4
        if m & 0x08:
            n += 8
        if m & 0x02:
            n += {1: 2352, 2: 2048, 3: 2336, 4: 2048, 5: 2324}.get(est, 2048)
        if m & 0x01:
            n += {2: 288, 4: 280, 5: 4}.get(est, 0)
        n += {1: 294, 2: 296}.get(f["c2ei"], 0)
        n += {1: 96, 2: 16, 4: 96}.get(f["scsb"], 0)
        return n

    def read_cd(self, f):
        if f["lba"] + f["tl"] > self._blk.nblocks:
            return cc(*LBA_OUT_OF_RANGE)
        n = min(f["tl"] * self.sector_len(f), self._xfer_in)
        seed = (f["lba"] * 31 + 5) & 0xFF
        return good(bytes((seed + i * 7) & 0xFF for i in range(n)))

    def rdi(self, f):
        if f["data_type"] == 0:
            data = R.disc_information_standard(sessions=0x0102, first_in_last=0x0203, last_in_last=0x0304, disc_id=0xA1B2C3D4)
        elif f["data_type"] == 1:
            data = R.disc_information_track_resources()
        elif f["data_type"] == 2:
            data = R.disc_information_pow()
        else:
            return cc(*INVALID_FIELD_CDB)
        return good(data[:f["alloc"]])


def make_lu(dev_type, qualifier=0, ident=0, **kw):
    if dev_type in (0x00, 0x04, 0x07, 0x0E):
        return BlockLU(dev_type, qualifier, ident, **kw)
    if dev_type == 0x05:
        return MmcLU(dev_type, qualifier, ident)
    if dev_type == 0x08:
        return ChangerLU(dev_type, qualifier, ident)
    return GenericLU(dev_type, qualifier, ident)
