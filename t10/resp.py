"""Encoders for data-in formats, from the standards.  Never imports pyscsi."""

from .cdb import set_field


def be(v, n):
    return int(v).to_bytes(n, "big")


def pad_ascii(s, n):
    bs = s.encode("ascii") if isinstance(s, str) else bytes(s)
    return (bs + b" " * n)[:n]


# ---------------------------------------------------------------- INQUIRY
def std_inquiry(dev_type=0, qualifier=0, rmb=0, version=6, vendor="VERIF",
                product="SIMULATED LU", revision="0001", length=96,
                cmdque=1, tpgs=0, hisup=0, normaca=0, protect=0, sccs=0,
                encserv=0, multip=0):
    buf = bytearray(max(length, 36))
    buf[0] = ((qualifier & 7) << 5) | (dev_type & 0x1F)
    buf[1] = 0x80 if rmb else 0
    buf[2] = version & 0xFF
    buf[3] = (0x20 if normaca else 0) | (0x10 if hisup else 0) | 2
    buf[4] = len(buf) - 5
    buf[5] = (0x80 if sccs else 0) | ((tpgs & 3) << 4) | (1 if protect else 0)
    buf[6] = (0x40 if encserv else 0) | (0x10 if multip else 0)
    buf[7] = 0x02 if cmdque else 0
    buf[8:16] = pad_ascii(vendor, 8)
    buf[16:32] = pad_ascii(product, 16)
    buf[32:36] = pad_ascii(revision, 4)
    return bytes(buf)


def vpd(dev_type, page, payload, qualifier=0):
    return bytes([((qualifier & 7) << 5) | (dev_type & 0x1F), page]) + be(len(payload), 2) + bytes(payload)


def vpd_supported(dev_type, pages):
    return vpd(dev_type, 0x00, bytes(sorted(pages)))


def vpd_serial(dev_type, serial):
    return vpd(dev_type, 0x80, serial.encode("ascii") if isinstance(serial, str) else serial)


def designation_descriptor(code_set, assoc, dtype, designator, piv=0, proto=0):
    return bytes([((proto & 0xF) << 4) | (code_set & 0xF),
                  (0x80 if piv else 0) | ((assoc & 3) << 4) | (dtype & 0xF),
                  0, len(designator)]) + bytes(designator)


def vpd_device_id(dev_type, descriptors):
    return vpd(dev_type, 0x83, b"".join(descriptors))


def naa6(company_id, vsid, ext):
    v = (6 << 124) | ((company_id & 0xFFFFFF) << 100) | ((vsid & 0xFFFFFFFFF) << 64) | (ext & (2**64 - 1))
    return be(v, 16)


def naa5(company_id, vsid):
    v = (5 << 60) | ((company_id & 0xFFFFFF) << 36) | (vsid & 0xFFFFFFFFF)
    return be(v, 8)


def vpd_block_limits(dev_type, wsnz=0, max_caw=0, otlg=0, max_xfer=0, opt_xfer=0,
                     max_prefetch=0, max_unmap_lba=0, max_unmap_bd=0, opt_unmap_gran=0,
                     ugavalid=0, unmap_align=0, max_ws=0):
    p = bytearray(0x3C)
    p[0] = 1 if wsnz else 0
    p[1] = max_caw & 0xFF
    p[2:4] = be(otlg, 2)
    p[4:8] = be(max_xfer, 4)
    p[8:12] = be(opt_xfer, 4)
    p[12:16] = be(max_prefetch, 4)
    p[16:20] = be(max_unmap_lba, 4)
    p[20:24] = be(max_unmap_bd, 4)
    p[24:28] = be(opt_unmap_gran, 4)
    p[28:32] = be(((1 << 31) if ugavalid else 0) | (unmap_align & 0x7FFFFFFF), 4)
    p[32:40] = be(max_ws, 8)
    return vpd(dev_type, 0xB0, p)


def vpd_block_dev_char(dev_type, rotation=1, product_type=0, form_factor=0, fuab=0, vbuls=0):
    p = bytearray(0x3C)
    p[0:2] = be(rotation, 2)
    p[2] = product_type & 0xFF
    p[3] = form_factor & 0x0F
    p[4] = (2 if fuab else 0) | (1 if vbuls else 0)
    return vpd(dev_type, 0xB1, p)


def vpd_lbp(dev_type, threshold_exponent=0, lbpu=0, lbpws=0, lbpws10=0, lbprz=0,
            anc_sup=0, dp=0, provisioning_type=0):
    p = bytearray(4)
    p[0] = threshold_exponent & 0xFF
    p[1] = ((0x80 if lbpu else 0) | (0x40 if lbpws else 0) | (0x20 if lbpws10 else 0)
            | ((lbprz & 7) << 2) | (2 if anc_sup else 0) | (1 if dp else 0))
    p[2] = provisioning_type & 7
    return vpd(dev_type, 0xB2, p)


def vpd_extended_inquiry(dev_type, **kw):
    p = bytearray(0x3C)
    p[0] = kw.get("b4", 0)
    p[1] = kw.get("b5", 0)
    p[2] = kw.get("b6", 0)
    return vpd(dev_type, 0x86, p)


def vpd_referrals(dev_type, seg_size=0, seg_mult=0):
    p = bytearray(12)
    p[4:8] = be(seg_size, 4)
    p[8:12] = be(seg_mult, 4)
    return vpd(dev_type, 0xB3, p)


def vpd_ata_information(dev_type, vendor="ATA", product="SIM ATA DISK", rev="1.0"):
    p = bytearray(0x238)
    p[4:12] = pad_ascii(vendor, 8)
    p[12:28] = pad_ascii(product, 16)
    p[28:32] = pad_ascii(rev, 4)
    p[32] = 0x34
    p[52] = 0xEC
    for i in range(56, 0x238):
        p[i] = (i * 7) & 0xFF
    return vpd(dev_type, 0x89, p)


# ---------------------------------------------------------------- MODE SENSE
def mode_page(page_code, body, ps=0, subpage=None):
    if subpage is None:
        return bytes([(0x80 if ps else 0) | (page_code & 0x3F), len(body)]) + bytes(body)
    return bytes([(0x80 if ps else 0) | 0x40 | (page_code & 0x3F), subpage & 0xFF]) + be(len(body), 2) + bytes(body)


def control_page(d_sense=0, swp=0, qerr=0, tst=0, busy_timeout=0, ext_selftest=0, tas=0):
    b = bytearray(10)
    b[0] = ((tst & 7) << 5) | (4 if d_sense else 0)
    b[1] = (qerr & 3) << 1
    b[2] = 8 if swp else 0
    b[3] = 0x40 if tas else 0
    b[6:8] = be(busy_timeout, 2)
    b[8:10] = be(ext_selftest, 2)
    return mode_page(0x0A, b)


def disconnect_reconnect_page(buffer_full=0, buffer_empty=0, bus_inactivity=0,
                              disconnect_time=0, connect_time=0, max_burst=0, first_burst=0):
    b = bytearray(14)
    b[0] = buffer_full & 0xFF
    b[1] = buffer_empty & 0xFF
    b[2:4] = be(bus_inactivity, 2)
    b[4:6] = be(disconnect_time, 2)
    b[6:8] = be(connect_time, 2)
    b[8:10] = be(max_burst, 2)
    b[12:14] = be(first_burst, 2)
    return mode_page(0x02, b)


def element_address_page(first_mt=0, n_mt=1, first_st=0x100, n_st=8, first_ie=0x200, n_ie=1,
                         first_dt=0x300, n_dt=2):
    b = bytearray(18)
    for i, v in enumerate((first_mt, n_mt, first_st, n_st, first_ie, n_ie, first_dt, n_dt)):
        b[2 * i:2 * i + 2] = be(v, 2)
    return mode_page(0x1D, b)


def mode_sense6(pages, medium_type=0, dev_specific=0, block_descriptors=b""):
    body = bytes([medium_type & 0xFF, dev_specific & 0xFF, len(block_descriptors)]) + bytes(block_descriptors) + b"".join(pages)
    return bytes([len(body) & 0xFF]) + body


def mode_sense10(pages, medium_type=0, dev_specific=0, block_descriptors=b"", longlba=0):
    body = bytes([medium_type & 0xFF, dev_specific & 0xFF, 1 if longlba else 0, 0]) + be(len(block_descriptors), 2) + bytes(block_descriptors) + b"".join(pages)
    return be(len(body), 2) + body


# ---------------------------------------------------------------- SBC
def read_capacity10(last_lba, block_len):
    return be(min(last_lba, 0xFFFFFFFF), 4) + be(block_len, 4)


def read_capacity16(last_lba, block_len, p_type=0, prot_en=0, p_i_exp=0, lbppbe=0,
                    lbpme=0, lbprz=0, lowest_aligned=0):
    buf = bytearray(32)
    buf[0:8] = be(last_lba, 8)
    buf[8:12] = be(block_len, 4)
    buf[12] = ((p_type & 7) << 1) | (1 if prot_en else 0)
    buf[13] = ((p_i_exp & 0xF) << 4) | (lbppbe & 0xF)
    buf[14:16] = be((0x8000 if lbpme else 0) | (0x4000 if lbprz else 0) | (lowest_aligned & 0x3FFF), 2)
    return bytes(buf)


def get_lba_status(descs):
    body = bytes(4) + b"".join(be(l, 8) + be(n, 4) + bytes([s & 0xF, 0, 0, 0]) for l, n, s in descs)
    return be(len(body), 4) + body


def report_luns(luns):
    body = b"".join(be(l, 8) for l in luns)
    return be(len(body), 4) + bytes(4) + body


def rtpg(groups, extended=False, implicit_time=0):
    """groups: list of dict(aas, pref, support, tpg, status, ports=[rtpi...])"""
    body = b""
    if extended:
        body += bytes([0x10, implicit_time & 0xFF, 0, 0])
    for g in groups:
        body += bytes([(0x80 if g.get("pref") else 0) | (g.get("aas", 0) & 0xF),
                       g.get("support", 0) & 0xFF]) + be(g.get("tpg", 0), 2)
        body += bytes([0, g.get("status", 0) & 0xFF, g.get("vendor", 0) & 0xFF, len(g.get("ports", []))])
        for p in g.get("ports", []):
            body += bytes(2) + be(p, 2)
    return be(len(body), 4) + body


def transport_id_fc(name8):
    buf = bytearray(24)
    buf[8:16] = name8
    return bytes(buf)


def transport_id_sas(addr8):
    buf = bytearray(24)
    buf[0] = 6
    buf[4:12] = addr8
    return bytes(buf)


def transport_id_iscsi(name, isid=None):
    s = name if isid is None else "%s,i,0x%s" % (name, isid)
    raw = s.encode("ascii") + b"\0"
    while len(raw) % 4:
        raw += b"\0"
    return bytes([(0x40 if isid is not None else 0) | 5, 0]) + be(len(raw), 2) + raw


def report_priority(descs):
    """descs: list of (priority, rtpi, transport_id bytes)"""
    body = b"".join(bytes([p & 0xF, 0]) + be(r, 2) + bytes(2) + be(len(t), 2) + t for p, r, t in descs)
    return be(len(body), 4) + body


def pr_read_keys(gen, keys):
    body = b"".join(be(k, 8) for k in keys)
    return be(gen, 4) + be(len(body), 4) + body


def pr_read_reservation(gen, holder=None):
    if holder is None:
        return be(gen, 4) + be(0, 4)
    key, scope, typ = holder
    return be(gen, 4) + be(16, 4) + be(key, 8) + bytes(4) + bytes([0, ((scope & 0xF) << 4) | (typ & 0xF), 0, 0])


def pr_report_capabilities(crh=1, sip_c=1, atp_c=1, ptpl_c=1, tmv=1, allow=0, ptpl_a=0, type_mask=0xEA01):
    b2 = (0x10 if crh else 0) | (8 if sip_c else 0) | (4 if atp_c else 0) | (1 if ptpl_c else 0)
    b3 = (0x80 if tmv else 0) | ((allow & 7) << 4) | (1 if ptpl_a else 0)
    return be(8, 2) + bytes([b2, b3]) + be(type_mask, 2) + bytes(2)


def pr_read_full_status(gen, descs):
    """descs: list of dict(key, holder, all_tg_pt, scope, type, rtpi, tid bytes)"""
    body = b""
    for d in descs:
        tid = d.get("tid", b"")
        body += be(d["key"], 8) + bytes(4)
        body += bytes([(2 if d.get("all_tg_pt") else 0) | (1 if d.get("holder") else 0),
                       ((d.get("scope", 0) & 0xF) << 4) | (d.get("type", 0) & 0xF)])
        body += bytes(4) + be(d.get("rtpi", 0), 2) + be(len(tid), 4) + tid
    return be(gen, 4) + be(len(body), 4) + body


# ---------------------------------------------------------------- SMC
def element_descriptor(addr, full=0, exc=0, access=1, asc=0, ascq=0, svalid=0, invert=0,
                       src=0, medium_type=0, pvoltag=None, avoltag=None, flags2=0, total=None):
    d = bytearray(12)
    d[0:2] = be(addr, 2)
    d[2] = (8 if access else 0) | (4 if exc else 0) | (1 if full else 0) | flags2
    d[4] = asc
    d[5] = ascq
    d[9] = (0x80 if svalid else 0) | (0x40 if invert else 0) | (medium_type & 7)
    d[10:12] = be(src, 2)
    out = bytes(d)
    if pvoltag is not None:
        out += pad_ascii(pvoltag, 32) + bytes(4)
    if avoltag is not None:
        out += pad_ascii(avoltag, 32) + bytes(4)
    out += bytes(4)
    if total is not None:
        out = (out + bytes(total))[:total]
    return out


def element_status_page(etype, descriptors, pvoltag=0, avoltag=0):
    dlen = len(descriptors[0]) if descriptors else 0
    body = b"".join(descriptors)
    return bytes([etype & 0xF, (0x80 if pvoltag else 0) | (0x40 if avoltag else 0)]) + be(dlen, 2) + bytes(1) + be(len(body), 3) + body


def read_element_status(first, count, pages):
    body = b"".join(pages)
    return be(first, 2) + be(count, 2) + bytes(1) + be(len(body), 3) + body


# ---------------------------------------------------------------- MMC
def disc_information_standard(erasable=0, last_session=3, disc_status=2, first_track=1,
                              sessions=1, first_in_last=1, last_in_last=1, disc_type=0,
                              disc_id=0, opc_tables=0):
    buf = bytearray(34)
    buf[0:2] = be(32, 2)
    buf[2] = (0 << 5) | (0x10 if erasable else 0) | ((last_session & 3) << 2) | (disc_status & 3)
    buf[3] = first_track & 0xFF
    buf[4] = sessions & 0xFF
    buf[5] = first_in_last & 0xFF
    buf[6] = last_in_last & 0xFF
    buf[7] = 0x20
    buf[8] = disc_type & 0xFF
    buf[9] = (sessions >> 8) & 0xFF
    buf[10] = (first_in_last >> 8) & 0xFF
    buf[11] = (last_in_last >> 8) & 0xFF
    buf[12:16] = be(disc_id, 4)
    buf[16:20] = b"\xff\xff\xff\xff"
    buf[20:24] = b"\xff\xff\xff\xff"
    buf[33] = opc_tables & 0xFF
    return bytes(buf)


def disc_information_track_resources(max_tracks=99, assigned=3, max_app=10, cur_app=2):
    return be(10, 2) + bytes([1 << 5, 0]) + be(max_tracks, 2) + be(assigned, 2) + be(max_app, 2) + be(cur_app, 2)


def disc_information_pow(rem_repl=5, rem_map=6, rem_upd=7):
    return be(14, 2) + bytes([2 << 5, 0]) + be(rem_repl, 4) + be(rem_map, 4) + be(rem_upd, 4)
