"""Sense data per SPC-4 4.5 and status codes per SAM-5, written independently
of pyscsi."""

# SAM-5 status codes
GOOD = 0x00
CHECK_CONDITION = 0x02
CONDITION_MET = 0x04
BUSY = 0x08
RESERVATION_CONFLICT = 0x18
TASK_SET_FULL = 0x28
ACA_ACTIVE = 0x30
TASK_ABORTED = 0x40

# status byte -> the name of the error the property says is "named after it"
NAMED_STATUS = {
    CONDITION_MET: "ConditionsMet",
    BUSY: "BusyStatus",
    RESERVATION_CONFLICT: "ReservationConflict",
    TASK_SET_FULL: "TaskSetFull",
    ACA_ACTIVE: "ACAActive",
    TASK_ABORTED: "TaskAborted",
}

SENSE_KEYS = {
    0x0: "NO SENSE", 0x1: "RECOVERED ERROR", 0x2: "NOT READY", 0x3: "MEDIUM ERROR",
    0x4: "HARDWARE ERROR", 0x5: "ILLEGAL REQUEST", 0x6: "UNIT ATTENTION",
    0x7: "DATA PROTECT", 0x8: "BLANK CHECK", 0x9: "VENDOR SPECIFIC",
    0xA: "COPY ABORTED", 0xB: "ABORTED COMMAND", 0xC: "RESERVED",
    0xD: "VOLUME OVERFLOW", 0xE: "MISCOMPARE", 0xF: "COMPLETED",
}

# About 150 well-known T10 ASC/ASCQ assignments (asc-num.txt), (asc, ascq) -> text
ASC_TEXT = {
    (0x00, 0x00): "NO ADDITIONAL SENSE INFORMATION",
    (0x00, 0x01): "FILEMARK DETECTED",
    (0x00, 0x02): "END-OF-PARTITION/MEDIUM DETECTED",
    (0x00, 0x06): "I/O PROCESS TERMINATED",
    (0x02, 0x00): "NO SEEK COMPLETE",
    (0x03, 0x00): "PERIPHERAL DEVICE WRITE FAULT",
    (0x04, 0x00): "LOGICAL UNIT NOT READY, CAUSE NOT REPORTABLE",
    (0x04, 0x01): "LOGICAL UNIT IS IN PROCESS OF BECOMING READY",
    (0x04, 0x02): "LOGICAL UNIT NOT READY, INITIALIZING COMMAND REQUIRED",
    (0x04, 0x03): "LOGICAL UNIT NOT READY, MANUAL INTERVENTION REQUIRED",
    (0x04, 0x04): "LOGICAL UNIT NOT READY, FORMAT IN PROGRESS",
    (0x08, 0x00): "LOGICAL UNIT COMMUNICATION FAILURE",
    (0x0C, 0x00): "WRITE ERROR",
    (0x11, 0x00): "UNRECOVERED READ ERROR",
    (0x1A, 0x00): "PARAMETER LIST LENGTH ERROR",
    (0x1D, 0x00): "MISCOMPARE DURING VERIFY OPERATION",
    (0x20, 0x00): "INVALID COMMAND OPERATION CODE",
    (0x21, 0x00): "LOGICAL BLOCK ADDRESS OUT OF RANGE",
    (0x21, 0x01): "INVALID ELEMENT ADDRESS",
    (0x24, 0x00): "INVALID FIELD IN CDB",
    (0x25, 0x00): "LOGICAL UNIT NOT SUPPORTED",
    (0x26, 0x00): "INVALID FIELD IN PARAMETER LIST",
    (0x27, 0x00): "WRITE PROTECTED",
    (0x28, 0x00): "NOT READY TO READY CHANGE, MEDIUM MAY HAVE CHANGED",
    (0x29, 0x00): "POWER ON, RESET, OR BUS DEVICE RESET OCCURRED",
    (0x2A, 0x01): "MODE PARAMETERS CHANGED",
    (0x2A, 0x09): "CAPACITY DATA HAS CHANGED",
    (0x2C, 0x00): "COMMAND SEQUENCE ERROR",
    (0x30, 0x00): "INCOMPATIBLE MEDIUM INSTALLED",
    (0x31, 0x00): "MEDIUM FORMAT CORRUPTED",
    (0x39, 0x00): "SAVING PARAMETERS NOT SUPPORTED",
    (0x3A, 0x00): "MEDIUM NOT PRESENT",
    (0x3B, 0x0D): "MEDIUM DESTINATION ELEMENT FULL",
    (0x3B, 0x0E): "MEDIUM SOURCE ELEMENT EMPTY",
    (0x3F, 0x0E): "REPORTED LUNS DATA HAS CHANGED",
    (0x44, 0x00): "INTERNAL TARGET FAILURE",
    (0x47, 0x00): "SCSI PARITY ERROR",
    (0x4B, 0x00): "DATA PHASE ERROR",
    (0x53, 0x02): "MEDIUM REMOVAL PREVENTED",
    (0x55, 0x04): "INSUFFICIENT REGISTRATION RESOURCES",
    (0x5D, 0x00): "FAILURE PREDICTION THRESHOLD EXCEEDED",
    (0x5D, 0xFF): "FAILURE PREDICTION THRESHOLD EXCEEDED (FALSE)",      # T10-assigned although the qualifier is >= 80h
    # second batch, also written from the T10 list (asc-num.txt) from memory; one entry of the draft (5Eh/03h) was my error and was dropped
    (0x00, 0x03): 'SETMARK DETECTED',
    (0x00, 0x04): 'BEGINNING-OF-PARTITION/MEDIUM DETECTED',
    (0x00, 0x05): 'END-OF-DATA DETECTED',
    (0x00, 0x11): 'AUDIO PLAY OPERATION IN PROGRESS',
    (0x00, 0x16): 'OPERATION IN PROGRESS',
    (0x00, 0x17): 'CLEANING REQUESTED',
    (0x00, 0x1D): 'ATA PASS THROUGH INFORMATION AVAILABLE',
    (0x01, 0x00): 'NO INDEX/SECTOR SIGNAL',
    (0x04, 0x05): 'LOGICAL UNIT NOT READY, REBUILD IN PROGRESS',
    (0x04, 0x07): 'LOGICAL UNIT NOT READY, OPERATION IN PROGRESS',
    (0x04, 0x09): 'LOGICAL UNIT NOT READY, SELF-TEST IN PROGRESS',
    (0x04, 0x0A): 'LOGICAL UNIT NOT ACCESSIBLE, ASYMMETRIC ACCESS STATE TRANSITION',
    (0x04, 0x0B): 'LOGICAL UNIT NOT ACCESSIBLE, TARGET PORT IN STANDBY STATE',
    (0x04, 0x0C): 'LOGICAL UNIT NOT ACCESSIBLE, TARGET PORT IN UNAVAILABLE STATE',
    (0x04, 0x11): 'LOGICAL UNIT NOT READY, NOTIFY (ENABLE SPINUP) REQUIRED',
    (0x04, 0x1B): 'LOGICAL UNIT NOT READY, SANITIZE IN PROGRESS',
    (0x05, 0x00): 'LOGICAL UNIT DOES NOT RESPOND TO SELECTION',
    (0x08, 0x01): 'LOGICAL UNIT COMMUNICATION TIME-OUT',
    (0x09, 0x00): 'TRACK FOLLOWING ERROR',
    (0x0A, 0x00): 'ERROR LOG OVERFLOW',
    (0x0B, 0x00): 'WARNING',
    (0x0B, 0x01): 'WARNING - SPECIFIED TEMPERATURE EXCEEDED',
    (0x0C, 0x02): 'WRITE ERROR - AUTO REALLOCATION FAILED',
    (0x10, 0x00): 'ID CRC OR ECC ERROR',
    (0x10, 0x01): 'LOGICAL BLOCK GUARD CHECK FAILED',
    (0x10, 0x02): 'LOGICAL BLOCK APPLICATION TAG CHECK FAILED',
    (0x10, 0x03): 'LOGICAL BLOCK REFERENCE TAG CHECK FAILED',
    (0x11, 0x01): 'READ RETRIES EXHAUSTED',
    (0x11, 0x04): 'UNRECOVERED READ ERROR - AUTO REALLOCATE FAILED',
    (0x14, 0x00): 'RECORDED ENTITY NOT FOUND',
    (0x14, 0x01): 'RECORD NOT FOUND',
    (0x15, 0x00): 'RANDOM POSITIONING ERROR',
    (0x17, 0x00): 'RECOVERED DATA WITH NO ERROR CORRECTION APPLIED',
    (0x18, 0x00): 'RECOVERED DATA WITH ERROR CORRECTION APPLIED',
    (0x19, 0x00): 'DEFECT LIST ERROR',
    (0x1B, 0x00): 'SYNCHRONOUS DATA TRANSFER ERROR',
    (0x1C, 0x00): 'DEFECT LIST NOT FOUND',
    (0x1E, 0x00): 'RECOVERED ID WITH ECC CORRECTION',
    (0x20, 0x01): 'ACCESS DENIED - INITIATOR PENDING-ENROLLED',
    (0x21, 0x02): 'INVALID ADDRESS FOR WRITE',
    (0x22, 0x00): 'ILLEGAL FUNCTION',
    (0x24, 0x01): 'CDB DECRYPTION ERROR',
    (0x26, 0x01): 'PARAMETER NOT SUPPORTED',
    (0x26, 0x02): 'PARAMETER VALUE INVALID',
    (0x26, 0x04): 'INVALID RELEASE OF PERSISTENT RESERVATION',
    (0x27, 0x01): 'HARDWARE WRITE PROTECTED',
    (0x27, 0x02): 'LOGICAL UNIT SOFTWARE WRITE PROTECTED',
    (0x28, 0x01): 'IMPORT OR EXPORT ELEMENT ACCESSED',
    (0x29, 0x01): 'POWER ON OCCURRED',
    (0x29, 0x02): 'SCSI BUS RESET OCCURRED',
    (0x29, 0x03): 'BUS DEVICE RESET FUNCTION OCCURRED',
    (0x29, 0x04): 'DEVICE INTERNAL RESET',
    (0x29, 0x07): 'I_T NEXUS LOSS OCCURRED',
    (0x2A, 0x00): 'PARAMETERS CHANGED',
    (0x2A, 0x02): 'LOG PARAMETERS CHANGED',
    (0x2A, 0x03): 'RESERVATIONS PREEMPTED',
    (0x2A, 0x04): 'RESERVATIONS RELEASED',
    (0x2A, 0x05): 'REGISTRATIONS PREEMPTED',
    (0x2A, 0x06): 'ASYMMETRIC ACCESS STATE CHANGED',
    (0x2B, 0x00): 'COPY CANNOT EXECUTE SINCE HOST CANNOT DISCONNECT',
    (0x2E, 0x00): 'INSUFFICIENT TIME FOR OPERATION',
    (0x2F, 0x00): 'COMMANDS CLEARED BY ANOTHER INITIATOR',
    (0x30, 0x01): 'CANNOT READ MEDIUM - UNKNOWN FORMAT',
    (0x30, 0x02): 'CANNOT READ MEDIUM - INCOMPATIBLE FORMAT',
    (0x31, 0x01): 'FORMAT COMMAND FAILED',
    (0x32, 0x00): 'NO DEFECT SPARE LOCATION AVAILABLE',
    (0x35, 0x00): 'ENCLOSURE SERVICES FAILURE',
    (0x37, 0x00): 'ROUNDED PARAMETER',
    (0x38, 0x07): 'THIN PROVISIONING SOFT THRESHOLD REACHED',
    (0x3A, 0x01): 'MEDIUM NOT PRESENT - TRAY CLOSED',
    (0x3A, 0x02): 'MEDIUM NOT PRESENT - TRAY OPEN',
    (0x3B, 0x00): 'SEQUENTIAL POSITIONING ERROR',
    (0x3B, 0x11): 'MEDIUM MAGAZINE NOT ACCESSIBLE',
    (0x3D, 0x00): 'INVALID BITS IN IDENTIFY MESSAGE',
    (0x3E, 0x00): 'LOGICAL UNIT HAS NOT SELF-CONFIGURED YET',
    (0x3E, 0x01): 'LOGICAL UNIT FAILURE',
    (0x3E, 0x02): 'TIMEOUT ON LOGICAL UNIT',
    (0x3F, 0x00): 'TARGET OPERATING CONDITIONS HAVE CHANGED',
    (0x3F, 0x01): 'MICROCODE HAS BEEN CHANGED',
    (0x3F, 0x03): 'INQUIRY DATA HAS CHANGED',
    (0x43, 0x00): 'MESSAGE ERROR',
    (0x45, 0x00): 'SELECT OR RESELECT FAILURE',
    (0x46, 0x00): 'UNSUCCESSFUL SOFT RESET',
    (0x48, 0x00): 'INITIATOR DETECTED ERROR MESSAGE RECEIVED',
    (0x49, 0x00): 'INVALID MESSAGE ERROR',
    (0x4A, 0x00): 'COMMAND PHASE ERROR',
    (0x4C, 0x00): 'LOGICAL UNIT FAILED SELF-CONFIGURATION',
    (0x4E, 0x00): 'OVERLAPPED COMMANDS ATTEMPTED',
    (0x53, 0x00): 'MEDIA LOAD OR EJECT FAILED',
    (0x55, 0x00): 'SYSTEM RESOURCE FAILURE',
    (0x55, 0x01): 'SYSTEM BUFFER FULL',
    (0x55, 0x02): 'INSUFFICIENT RESERVATION RESOURCES',
    (0x55, 0x03): 'INSUFFICIENT RESOURCES',
    (0x55, 0x0E): 'INSUFFICIENT ZONE RESOURCES',
    (0x57, 0x00): 'UNABLE TO RECOVER TABLE-OF-CONTENTS',
    (0x5A, 0x00): 'OPERATOR REQUEST OR STATE CHANGE INPUT',
    (0x5A, 0x01): 'OPERATOR MEDIUM REMOVAL REQUEST',
    (0x5B, 0x01): 'THRESHOLD CONDITION MET',
    (0x5D, 0x10): 'HARDWARE IMPENDING FAILURE GENERAL HARD DRIVE FAILURE',
    (0x5E, 0x00): 'LOW POWER CONDITION ON',
    (0x5E, 0x01): 'IDLE CONDITION ACTIVATED BY TIMER',
    (0x63, 0x00): 'END OF USER AREA ENCOUNTERED ON THIS TRACK',
    (0x64, 0x00): 'ILLEGAL MODE FOR THIS TRACK',
    (0x65, 0x00): 'VOLTAGE FAULT',
    (0x67, 0x0A): 'SET TARGET PORT GROUPS COMMAND FAILED',
    (0x67, 0x0B): 'ATA DEVICE FEATURE NOT ENABLED',
    (0x6F, 0x00): 'COPY PROTECTION KEY EXCHANGE FAILURE - AUTHENTICATION FAILURE',
    (0x72, 0x00): 'SESSION FIXATION ERROR',
    (0x73, 0x00): 'CD CONTROL ERROR',
    (0x74, 0x00): 'SECURITY ERROR',
    (0x74, 0x01): 'UNABLE TO DECRYPT DATA',
}


def fixed(key, asc, ascq, response_code=0x70, valid=0, info=0, length=18,
          filler=0, sks=0):
    """fixed-format sense data (SPC-4 table 53), truncated/extended to length"""
    buf = bytearray([filler]) * max(length, 18)
    buf[0] = (0x80 if valid else 0) | (response_code & 0x7F)
    buf[1] = 0
    buf[2] = (buf[2] & 0xF0 if filler else 0) | (key & 0x0F)
    buf[3:7] = (info & 0xFFFFFFFF).to_bytes(4, "big")
    buf[7] = max(0, length - 8) & 0xFF        # ADDITIONAL SENSE LENGTH = n - 7: the bytes that actually follow byte 7
    buf[8:12] = bytes(4)
    buf[12] = asc & 0xFF
    buf[13] = ascq & 0xFF
    buf[14] = 0
    buf[15:18] = (sks & 0xFFFFFF).to_bytes(3, "big")
    return bytes(buf[:length])


def descriptor(key, asc, ascq, response_code=0x72, length=8, filler=0):
    """descriptor-format sense data (SPC-4 table 26)"""
    buf = bytearray([0]) * max(length, 8)
    buf[0] = response_code & 0x7F
    buf[1] = key & 0x0F
    buf[2] = asc & 0xFF
    buf[3] = ascq & 0xFF
    buf[7] = max(0, max(length, 8) - 8) & 0xFF
    # fill the descriptor area with vendor-specific descriptors (type 0x80) so
    # the bytes are legal whatever the length
    i = 8
    while i + 2 <= len(buf):
        n = min(len(buf) - i - 2, 14)
        buf[i] = 0x80
        buf[i + 1] = n
        for j in range(n):
            buf[i + 2 + j] = filler
        i += 2 + n
    return bytes(buf[:length])


def _at(buf, i):
    return buf[i] if i < len(buf) else 0


def decode(buf):
    """-> dict(response_code, valid, fmt, key, asc, ascq); bytes beyond the
    buffer read as zero; fmt is 'fixed', 'descriptor' or None (unknown
    response code: key/asc/ascq are None)"""
    rc = _at(buf, 0) & 0x7F
    out = {"response_code": rc, "valid": 1 if _at(buf, 0) & 0x80 else 0}
    if rc in (0x70, 0x71):
        out.update(fmt="fixed", key=_at(buf, 2) & 0x0F, asc=_at(buf, 12), ascq=_at(buf, 13))
    elif rc in (0x72, 0x73):
        out.update(fmt="descriptor", key=_at(buf, 1) & 0x0F, asc=_at(buf, 2), ascq=_at(buf, 3))
    else:
        out.update(fmt=None, key=None, asc=None, ascq=None)
    out["deferred"] = rc in (0x71, 0x73)
    return out
