"""Sense data per SPC-4 4.5 and status codes per SAM-5, written independently
of pyscsi."""

# SAM-5 status codes
GOOD = 0x00
CHECK_CONDITION = 0x02
CONDITION_MET = 0x04
BUSY = 0x08
RESERVATION_CONFLICT = 0x18
TASK_SET_FULL = 0x28
ACA_ACTIVE = 0x30
TASK_ABORTED = 0x40

# status byte -> the name of the error the property says is "named after it"
NAMED_STATUS = {
    CONDITION_MET: "ConditionsMet",
    BUSY: "BusyStatus",
    RESERVATION_CONFLICT: "ReservationConflict",
    TASK_SET_FULL: "TaskSetFull",
    ACA_ACTIVE: "ACAActive",
    TASK_ABORTED: "TaskAborted",
}

SENSE_KEYS = {
    0x0: "NO SENSE", 0x1: "RECOVERED ERROR", 0x2: "NOT READY", 0x3: "MEDIUM ERROR",
    0x4: "HARDWARE ERROR", 0x5: "ILLEGAL REQUEST", 0x6: "UNIT ATTENTION",
    0x7: "DATA PROTECT", 0x8: "BLANK CHECK", 0x9: "VENDOR SPECIFIC",
    0xA: "COPY ABORTED", 0xB: "ABORTED COMMAND", 0xC: "RESERVED",
    0xD: "VOLUME OVERFLOW", 0xE: "MISCOMPARE", 0xF: "COMPLETED",
}

# A few dozen well-known T10 ASC/ASCQ assignments (asc-num.txt), (asc, ascq) -> text
ASC_TEXT = {
    (0x00, 0x00): "NO ADDITIONAL SENSE INFORMATION",
    (0x00, 0x01): "FILEMARK DETECTED",
    (0x00, 0x02): "END-OF-PARTITION/MEDIUM DETECTED",
    (0x00, 0x06): "I/O PROCESS TERMINATED",
    (0x02, 0x00): "NO SEEK COMPLETE",
    (0x03, 0x00): "PERIPHERAL DEVICE WRITE FAULT",
    (0x04, 0x00): "LOGICAL UNIT NOT READY, CAUSE NOT REPORTABLE",
    (0x04, 0x01): "LOGICAL UNIT IS IN PROCESS OF BECOMING READY",
    (0x04, 0x02): "LOGICAL UNIT NOT READY, INITIALIZING COMMAND REQUIRED",
    (0x04, 0x03): "LOGICAL UNIT NOT READY, MANUAL INTERVENTION REQUIRED",
    (0x04, 0x04): "LOGICAL UNIT NOT READY, FORMAT IN PROGRESS",
    (0x08, 0x00): "LOGICAL UNIT COMMUNICATION FAILURE",
    (0x0C, 0x00): "WRITE ERROR",
    (0x11, 0x00): "UNRECOVERED READ ERROR",
    (0x1A, 0x00): "PARAMETER LIST LENGTH ERROR",
    (0x1D, 0x00): "MISCOMPARE DURING VERIFY OPERATION",
    (0x20, 0x00): "INVALID COMMAND OPERATION CODE",
    (0x21, 0x00): "LOGICAL BLOCK ADDRESS OUT OF RANGE",
    (0x21, 0x01): "INVALID ELEMENT ADDRESS",
    (0x24, 0x00): "INVALID FIELD IN CDB",
    (0x25, 0x00): "LOGICAL UNIT NOT SUPPORTED",
    (0x26, 0x00): "INVALID FIELD IN PARAMETER LIST",
    (0x27, 0x00): "WRITE PROTECTED",
    (0x28, 0x00): "NOT READY TO READY CHANGE, MEDIUM MAY HAVE CHANGED",
    (0x29, 0x00): "POWER ON, RESET, OR BUS DEVICE RESET OCCURRED",
    (0x2A, 0x01): "MODE PARAMETERS CHANGED",
    (0x2A, 0x09): "CAPACITY DATA HAS CHANGED",
    (0x2C, 0x00): "COMMAND SEQUENCE ERROR",
    (0x30, 0x00): "INCOMPATIBLE MEDIUM INSTALLED",
    (0x31, 0x00): "MEDIUM FORMAT CORRUPTED",
    (0x39, 0x00): "SAVING PARAMETERS NOT SUPPORTED",
    (0x3A, 0x00): "MEDIUM NOT PRESENT",
    (0x3B, 0x0D): "MEDIUM DESTINATION ELEMENT FULL",
    (0x3B, 0x0E): "MEDIUM SOURCE ELEMENT EMPTY",
    (0x3F, 0x0E): "REPORTED LUNS DATA HAS CHANGED",
    (0x44, 0x00): "INTERNAL TARGET FAILURE",
    (0x47, 0x00): "SCSI PARITY ERROR",
    (0x4B, 0x00): "DATA PHASE ERROR",
    (0x53, 0x02): "MEDIUM REMOVAL PREVENTED",
    (0x55, 0x04): "INSUFFICIENT REGISTRATION RESOURCES",
    (0x5D, 0x00): "FAILURE PREDICTION THRESHOLD EXCEEDED",
}


def fixed(key, asc, ascq, response_code=0x70, valid=0, info=0, length=18,
          filler=0, sks=0):
    """fixed-format sense data (SPC-4 table 53), truncated/extended to length"""
    buf = bytearray([filler]) * max(length, 18)
    buf[0] = (0x80 if valid else 0) | (response_code & 0x7F)
    buf[1] = 0
    buf[2] = (buf[2] & 0xF0 if filler else 0) | (key & 0x0F)
    buf[3:7] = (info & 0xFFFFFFFF).to_bytes(4, "big")
    buf[7] = max(0, max(length, 18) - 8) & 0xFF
    buf[8:12] = bytes(4)
    buf[12] = asc & 0xFF
    buf[13] = ascq & 0xFF
    buf[14] = 0
    buf[15:18] = (sks & 0xFFFFFF).to_bytes(3, "big")
    return bytes(buf[:length])


def descriptor(key, asc, ascq, response_code=0x72, length=8, filler=0):
    """descriptor-format sense data (SPC-4 table 26)"""
    buf = bytearray([0]) * max(length, 8)
    buf[0] = response_code & 0x7F
    buf[1] = key & 0x0F
    buf[2] = asc & 0xFF
    buf[3] = ascq & 0xFF
    buf[7] = max(0, max(length, 8) - 8) & 0xFF
    # fill the descriptor area with vendor-specific descriptors (type 0x80) so
    # the bytes are legal whatever the length
    i = 8
    while i + 2 <= len(buf):
        n = min(len(buf) - i - 2, 14)
        buf[i] = 0x80
        buf[i + 1] = n
        for j in range(n):
            buf[i + 2 + j] = filler
        i += 2 + n
    return bytes(buf[:length])


def _at(buf, i):
    return buf[i] if i < len(buf) else 0


def decode(buf):
    """-> dict(response_code, valid, fmt, key, asc, ascq); bytes beyond the
    buffer read as zero; fmt is 'fixed', 'descriptor' or None (unknown
    response code: key/asc/ascq are None)"""
    rc = _at(buf, 0) & 0x7F
    out = {"response_code": rc, "valid": 1 if _at(buf, 0) & 0x80 else 0}
    if rc in (0x70, 0x71):
        out.update(fmt="fixed", key=_at(buf, 2) & 0x0F, asc=_at(buf, 12), ascq=_at(buf, 13))
    elif rc in (0x72, 0x73):
        out.update(fmt="descriptor", key=_at(buf, 1) & 0x0F, asc=_at(buf, 2), ascq=_at(buf, 3))
    else:
        out.update(fmt=None, key=None, asc=None, ascq=None)
    out["deferred"] = rc in (0x71, 0x73)
    return out
