"""CDB layouts, written from the standards (SPC-4/5, SBC-3/4, SMC-3, MMC-6,
SAT-3).  A field is (byte offset, most significant bit 7..0 of that byte,
width in bits); multi-byte fields are big-endian and continue into the
following bytes."""

# SAM: CDB length by group code (opcode bits 7-5).  Groups 3 (variable),
# 6 and 7 (vendor specific) have no fixed length.
GROUP_LEN = {0: 6, 1: 10, 2: 10, 3: None, 4: 16, 5: 12, 6: None, 7: None}


def cdb_len(opcode):
    return GROUP_LEN[(opcode >> 5) & 7]


def get_field(buf, field):
    off, msb, width = field
    nbytes = (7 - msb + width + 7) // 8
    chunk = bytes(buf[off:off + nbytes])
    chunk = chunk + b"\x00" * (nbytes - len(chunk))
    val = int.from_bytes(chunk, "big")
    total = nbytes * 8
    shift = total - (7 - msb) - width
    return (val >> shift) & ((1 << width) - 1)


def set_field(buf, field, value):
    off, msb, width = field
    nbytes = (7 - msb + width + 7) // 8
    total = nbytes * 8
    shift = total - (7 - msb) - width
    mask = ((1 << width) - 1) << shift
    cur = int.from_bytes(bytes(buf[off:off + nbytes]), "big")
    cur = (cur & ~mask) | ((value << shift) & mask)
    buf[off:off + nbytes] = cur.to_bytes(nbytes, "big")


def B(off, width_bytes=1):
    """whole-byte field"""
    return (off, 7, 8 * width_bytes)


def b(off, bit):
    return (off, bit, 1)


def bits(off, hi, lo):
    return (off, hi, hi - lo + 1)


OP = (0, 7, 8)

# name -> dict(opcode=, sa=(field, value) or None, fields={name: field})
LAYOUTS = {
    "TEST_UNIT_READY": dict(opcode=0x00, fields={}),
    "INQUIRY": dict(opcode=0x12, fields={
        "evpd": b(1, 0), "page_code": B(2), "alloc": B(3, 2)}),
    "MODE_SELECT_6": dict(opcode=0x15, fields={
        "pf": b(1, 4), "sp": b(1, 0), "pll": B(4)}),
    "MODE_SENSE_6": dict(opcode=0x1A, fields={
        "dbd": b(1, 3), "pc": bits(2, 7, 6), "page_code": bits(2, 5, 0),
        "sub_page_code": B(3), "alloc": B(4)}),
    "MODE_SELECT_10": dict(opcode=0x55, fields={
        "pf": b(1, 4), "sp": b(1, 0), "pll": B(7, 2)}),
    "MODE_SENSE_10": dict(opcode=0x5A, fields={
        "llbaa": b(1, 4), "dbd": b(1, 3), "pc": bits(2, 7, 6),
        "page_code": bits(2, 5, 0), "sub_page_code": B(3), "alloc": B(7, 2)}),
    "PREVENT_ALLOW_MEDIUM_REMOVAL": dict(opcode=0x1E, fields={
        "prevent": bits(4, 1, 0)}),
    "READ_10": dict(opcode=0x28, fields={
        "rdprotect": bits(1, 7, 5), "dpo": b(1, 4), "fua": b(1, 3),
        "rarc": b(1, 2), "lba": B(2, 4), "group": bits(6, 4, 0), "tl": B(7, 2)}),
    "READ_12": dict(opcode=0xA8, fields={
        "rdprotect": bits(1, 7, 5), "dpo": b(1, 4), "fua": b(1, 3),
        "rarc": b(1, 2), "lba": B(2, 4), "tl": B(6, 4), "group": bits(10, 4, 0)}),
    "READ_16": dict(opcode=0x88, fields={
        "rdprotect": bits(1, 7, 5), "dpo": b(1, 4), "fua": b(1, 3),
        "rarc": b(1, 2), "lba": B(2, 8), "tl": B(10, 4), "group": bits(14, 4, 0)}),
    "WRITE_10": dict(opcode=0x2A, fields={
        "wrprotect": bits(1, 7, 5), "dpo": b(1, 4), "fua": b(1, 3),
        "lba": B(2, 4), "group": bits(6, 4, 0), "tl": B(7, 2)}),
    "WRITE_12": dict(opcode=0xAA, fields={
        "wrprotect": bits(1, 7, 5), "dpo": b(1, 4), "fua": b(1, 3),
        "lba": B(2, 4), "tl": B(6, 4), "group": bits(10, 4, 0)}),
    "WRITE_16": dict(opcode=0x8A, fields={
        "wrprotect": bits(1, 7, 5), "dpo": b(1, 4), "fua": b(1, 3),
        "lba": B(2, 8), "tl": B(10, 4), "group": bits(14, 4, 0)}),
    "WRITE_SAME_10": dict(opcode=0x41, fields={
        "wrprotect": bits(1, 7, 5), "anchor": b(1, 4), "unmap": b(1, 3),
        "lba": B(2, 4), "group": bits(6, 4, 0), "nb": B(7, 2)}),
    "WRITE_SAME_16": dict(opcode=0x93, fields={
        "wrprotect": bits(1, 7, 5), "anchor": b(1, 4), "unmap": b(1, 3),
        "ndob": b(1, 0), "lba": B(2, 8), "nb": B(10, 4), "group": bits(14, 4, 0)}),
    "SYNCHRONIZE_CACHE_10": dict(opcode=0x35, fields={
        "immed": b(1, 1), "lba": B(2, 4), "group": bits(6, 4, 0), "numblks": B(7, 2)}),
    "SYNCHRONIZE_CACHE_16": dict(opcode=0x91, fields={
        "immed": b(1, 1), "lba": B(2, 8), "numblks": B(10, 4), "group": bits(14, 4, 0)}),
    "READ_CAPACITY_10": dict(opcode=0x25, fields={}),
    "READ_CAPACITY_16": dict(opcode=0x9E, sa=(bits(1, 4, 0), 0x10), fields={
        "alloc": B(10, 4)}),
    "GET_LBA_STATUS": dict(opcode=0x9E, sa=(bits(1, 4, 0), 0x12), fields={
        "lba": B(2, 8), "alloc": B(10, 4)}),
    "REPORT_LUNS": dict(opcode=0xA0, fields={
        "select_report": B(2), "alloc": B(6, 4)}),
    "REPORT_TARGET_PORT_GROUPS": dict(opcode=0xA3, sa=(bits(1, 4, 0), 0x0A), fields={
        "data_format": bits(1, 7, 5), "alloc": B(6, 4)}),
    "REPORT_PRIORITY": dict(opcode=0xA3, sa=(bits(1, 4, 0), 0x0E), fields={
        "priority": bits(2, 7, 6), "alloc": B(6, 4)}),
    "PERSISTENT_RESERVE_IN": dict(opcode=0x5E, fields={
        "service_action": bits(1, 4, 0), "alloc": B(7, 2)}),
    "PERSISTENT_RESERVE_OUT": dict(opcode=0x5F, fields={
        "service_action": bits(1, 4, 0), "scope": bits(2, 7, 4),
        "pr_type": bits(2, 3, 0), "pll": B(5, 4)}),
    "EXTENDED_COPY": dict(opcode=0x83, fields={
        "service_action": bits(1, 4, 0), "pll": B(10, 4)}),
    "ATA_PASS_THROUGH_12": dict(opcode=0xA1, fields={
        "protocol": bits(1, 4, 1), "off_line": bits(2, 7, 6), "ck_cond": b(2, 5),
        "t_type": b(2, 4), "t_dir": b(2, 3), "byte_block": b(2, 2),
        "t_length": bits(2, 1, 0), "features": B(3), "count": B(4),
        "lba_low": B(5), "lba_mid": B(6), "lba_high": B(7),
        "device": B(8), "command": B(9), "control": B(11)}),
    "ATA_PASS_THROUGH_16": dict(opcode=0x85, fields={
        "protocol": bits(1, 4, 1), "extend": b(1, 0), "off_line": bits(2, 7, 6),
        "ck_cond": b(2, 5), "t_type": b(2, 4), "t_dir": b(2, 3),
        "byte_block": b(2, 2), "t_length": bits(2, 1, 0),
        "features": B(3, 2), "count": B(5, 2),
        "lba_31_24": B(7), "lba_7_0": B(8), "lba_39_32": B(9), "lba_15_8": B(10),
        "lba_47_40": B(11), "lba_23_16": B(12),
        "device": B(13), "command": B(14), "control": B(15)}),
    # SMC
    "MOVE_MEDIUM": dict(opcode=0xA5, fields={
        "xfer": B(2, 2), "source": B(4, 2), "dest": B(6, 2), "invert": b(10, 0)}),
    "EXCHANGE_MEDIUM": dict(opcode=0xA6, fields={
        "xfer": B(2, 2), "source": B(4, 2), "dest1": B(6, 2), "dest2": B(8, 2),
        "inv1": b(10, 1), "inv2": b(10, 0)}),
    "POSITION_TO_ELEMENT": dict(opcode=0x2B, fields={
        "xfer": B(2, 2), "dest": B(4, 2), "invert": b(8, 0)}),
    "INITIALIZE_ELEMENT_STATUS": dict(opcode=0x07, fields={}),
    "INITIALIZE_ELEMENT_STATUS_WITH_RANGE": dict(opcode=0x37, fields={
        "fast": b(1, 1), "range": b(1, 0), "xfer": B(2, 2), "elements": B(6, 2)}),
    "READ_ELEMENT_STATUS": dict(opcode=0xB8, fields={
        "voltag": b(1, 4), "element_type": bits(1, 3, 0), "start": B(2, 2),
        "num": B(4, 2), "curdata": b(6, 1), "dvcid": b(6, 0), "alloc": B(7, 3)}),
    "OPEN_CLOSE_IMPORT_EXPORT_ELEMENT": dict(opcode=0x1B, fields={
        "xfer": B(2, 2), "acode": bits(4, 4, 0)}),
    # MMC
    "READ_CD": dict(opcode=0xBE, fields={
        "est": bits(1, 4, 2), "dap": b(1, 1), "lba": B(2, 4), "tl": B(6, 3),
        "mcsb": bits(9, 7, 3), "c2ei": bits(9, 2, 1), "scsb": bits(10, 2, 0)}),
    "READ_DISC_INFORMATION": dict(opcode=0x51, fields={
        "data_type": bits(1, 2, 0), "alloc": B(7, 2)}),
}


def decode(name, cdb):
    lay = LAYOUTS[name]
    return {k: get_field(cdb, f) for k, f in lay["fields"].items()}


def sa_of(name, cdb):
    lay = LAYOUTS[name]
    if lay.get("sa"):
        return get_field(cdb, lay["sa"][0])
    return None


def defined_mask(name, length):
    """bytes object with 1-bits wherever the layout defines a field (incl.
    opcode, service action, control byte)"""
    buf = bytearray(length)
    set_field(buf, OP, 0xFF)
    lay = LAYOUTS[name]
    if lay.get("sa"):
        f = lay["sa"][0]
        set_field(buf, f, (1 << f[2]) - 1)
    for f in lay["fields"].values():
        set_field(buf, f, (1 << f[2]) - 1)
    return bytes(buf)


def identify(cdb):
    """Which command is this CDB, by T10 opcode (+service action)?  None if
    this layer does not know it."""
    if not len(cdb):
        return None
    op = cdb[0]
    cands = [n for n, l in LAYOUTS.items() if l["opcode"] == op]
    if not cands:
        return None
    for n in cands:
        lay = LAYOUTS[n]
        if lay.get("sa"):
            if len(cdb) > 1 and get_field(cdb, lay["sa"][0]) == lay["sa"][1]:
                return n
        else:
            return n
    return None


def ata_lba_12(cdb):
    d = decode("ATA_PASS_THROUGH_12", cdb)
    return d["lba_low"] | (d["lba_mid"] << 8) | (d["lba_high"] << 16)


def ata_lba_16(cdb):
    d = decode("ATA_PASS_THROUGH_16", cdb)
    return (d["lba_7_0"] | (d["lba_15_8"] << 8) | (d["lba_23_16"] << 16)
            | (d["lba_31_24"] << 24) | (d["lba_39_32"] << 32) | (d["lba_47_40"] << 40))
