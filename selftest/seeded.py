#!/venv/bin/python
"""Re-check every stored seeded change: apply /verif/seeded/<name>/patch.diff to a scratch copy of /repo (removed afterwards)
and run the property's quick check against it.  usage: seeded.py [NAME-substring ...]"""
import glob
import json
import os
import shutil
import subprocess
import sys
import tempfile

VERIF = os.path.dirname(os.path.dirname(os.path.abspath(__file__)))
PY = "/venv/bin/python"
# not caught, each for a stated reason (meta.json/history, DESIGN 10.4)
ALL = ["C07", "C08", "C09", "C11", "C12", "C13", "C15", "C16", "C17", "C18", "C19"]
EXPECTED_MISS = {"C15-w2seed1", "C08-w3seed1", "C11-w3seed2", "C17-w3seed2", "C19-w4seed4", "C08-w6seed2"}


def main():
    pats = sys.argv[1:]
    bad = 0
    for d in sorted(glob.glob(os.path.join(VERIF, "seeded", "*"))):
        name = os.path.basename(d)
        if pats and not any(p in name for p in pats):
            continue
        meta = json.load(open(os.path.join(d, "meta.json")))
        prop = meta.get("checked_by") or meta["property"]
        tmp = tempfile.mkdtemp(prefix="verif_seedre_")
        try:
            dst = os.path.join(tmp, "repo")
            shutil.copytree("/repo", dst, ignore=shutil.ignore_patterns(".git", "__pycache__", "*.egg-info"))
            p = subprocess.run(["patch", "-p1", "-s", "-i", os.path.join(d, "patch.diff")], cwd=dst, capture_output=True, text=True)
            if p.returncode != 0:
                print("%-14s PATCH DOES NOT APPLY to the current tree (%s)" % (name, (p.stdout + p.stderr).strip().splitlines()[:1]))
                bad += 1
                continue
            if name.startswith("refactor"):
                # behaviour-preserving refactoring: NO check may alarm
                alarms = {}
                # SEEDED_REFACTOR_CHECKS=own: only the check of the refactoring's own property (a quicker pass)
                for c_ in ([meta["property"]] if os.environ.get("SEEDED_REFACTOR_CHECKS") == "own" else ALL):
                    r = subprocess.run([PY, os.path.join(VERIF, "check.py"), c_, "--repo", dst, "--no-evidence", "--no-selfcheck"], capture_output=True, text=True)
                    if r.returncode != 0:
                        alarms[c_] = (r.returncode, [l.strip().split(" (in")[0] for l in r.stdout.splitlines() if l.strip().startswith(("signature", "HARNESS"))][:2])
                print("%-14s %s %s" % (name, ("ok   no alarm in %s" % ("its own check" if os.environ.get("SEEDED_REFACTOR_CHECKS") == "own" else "11 checks")) if not alarms else "UNEXPECTED ALARM", alarms or ""), flush=True)
                if alarms:
                    bad += 1
                continue
            c = subprocess.run([PY, os.path.join(VERIF, "check.py"), prop, "--repo", dst, "--no-evidence"], capture_output=True, text=True)
            sig = [l.strip().split(" (in")[0].replace("signature ", "") for l in c.stdout.splitlines() if l.strip().startswith("signature")][:2]
            ok = (c.returncode == 1) != (name in EXPECTED_MISS)
            print("%-14s %s rc=%d %s" % (name, "ok  " if ok else "UNEXPECTED", c.returncode, sig), flush=True)
            if not ok:
                bad += 1
        finally:
            shutil.rmtree(tmp, ignore_errors=True)
    return 1 if bad else 0


if __name__ == "__main__":
    sys.exit(main())
