"""Hand-written mutants (kind 'break': the check must alarm) and behaviour-
preserving rewrites (kind 'keep': it must not) per property.  Edits are
(path, old, new) textual replacements on a scratch copy of /repo."""

DEV = "pyscsi/pyscsi/scsi_device.py"
ISC = "pyscsi/pyiscsi/iscsi_device.py"
SCSI = "pyscsi/pyscsi/scsi.py"
SENSE = "pyscsi/pyscsi/scsi_sense.py"

MUTANTS = {
    "C07": {
        "drop-raise-sgio": dict(edits=[(DEV, "                raise self.CheckCondition(error.sense)", "                self.CheckCondition(error.sense)")]),
        "swap-status-const": dict(edits=[("pyscsi/pyscsi/scsi_enum_command.py", '"BUSY": 0x08,\n    "RESERVATION_CONFLICT": 0x18,', '"BUSY": 0x18,\n    "RESERVATION_CONFLICT": 0x08,')]),
        "return-on-conditions-met": dict(edits=[(ISC, "            raise self.ConditionsMet()", "            return")]),
        "swallow-in-facade": dict(edits=[(SCSI, "        except Exception as e:\n            raise e", "        except Exception as e:\n            pass")]),
        "raw-sense-parsed": dict(edits=[(ISC, "                cmd.raw_sense_data = cmd.sense", "                cmd.raw_sense_data = self.CheckCondition(cmd.sense)")]),
        "raise-only-when-raw": dict(edits=[(ISC, "            raise self.CheckCondition(cmd.sense)", "            if en_raw_sense:\n                raise self.CheckCondition(cmd.sense)\n            return")]),
        "unknown-status-returns": dict(edits=[(ISC, "        raise RuntimeError", "        return")]),
        "keep-raise-from": dict(kind="keep", edits=[(SCSI, "        except Exception as e:\n            raise e", "        except Exception as e:\n            raise")]),
        "keep-no-try": dict(kind="keep", edits=[(SCSI, "        try:\n            self.device.execute(cmd, en_raw_sense=en_raw_sense)\n        except Exception as e:\n            raise e", "        self.device.execute(cmd, en_raw_sense=en_raw_sense)")]),
    },
    "C08": {
        "mask-shift": dict(edits=[(SENSE, '"sense_key": [0x0F, 2],', '"sense_key": [0x1F, 2],')]),
        "drop-key": dict(edits=[(SENSE, '    0x0E: "Miscompare",\n', '')]),
        "desc-asc-offset": dict(edits=[(SENSE, '        "additional_sense_code": [0xFF, 2],', '        "additional_sense_code": [0xFF, 12],')]),
        "index-no-default": dict(edits=[(SENSE, 'sense_ascq_dict.get(self._ascq(), "Unassigned ASC/ASCQ")', 'sense_ascq_dict[self._ascq()]')]),
        "deferred-like-before": dict(edits=[(SENSE, "            SENSE_FORMAT_CURRENT_FIXED,\n            SENSE_FORMAT_DEFERRED_FIXED,\n", "            SENSE_FORMAT_CURRENT_FIXED,\n")]),
        "handle-72-like-70": dict(edits=[(SENSE, "            self.data = self.unmarshall_desc_format_sense_data(sense)", "            self.data = self.unmarshall_fixed_format_sense_data(sense)")]),
        "keep-message-wording": dict(kind="keep", edits=[(SENSE, '"Check Condition: %s(0x%02X) ASC+Q:%s(0x%04X)"', '"CHECK CONDITION - %s (0x%02X), ASC/ASCQ: %s (0x%04X)"')]),
    },
    "C12": {
        "read10-alloc-blocksize": dict(edits=[("pyscsi/pyscsi/scsi_cdb_read10.py", "SCSICommand.__init__(self, opcode, 0, blocksize * tl)", "SCSICommand.__init__(self, opcode, 0, blocksize)")]),
        "write16-lba-mask": dict(edits=[("pyscsi/pyscsi/scsi_cdb_write16.py", '"lba": [0xFFFFFFFFFFFFFFFF, 2],', '"lba": [0x00FFFFFFFFFFFFFF, 2],')]),
        "iscsi-swap-dir": dict(edits=[(ISC, "            dir = iscsi.SCSI_XFER_WRITE\n", "            dir = iscsi.SCSI_XFER_READ\n")]),
        "iscsi-xferlen-wrong-buffer": dict(edits=[(ISC, "            xferlen = len(cmd.dataout)", "            xferlen = len(cmd.datain)")]),
        "readcap16-lba-mask": dict(edits=[("pyscsi/pyscsi/scsi_cdb_readcapacity16.py", '"returned_lba": [0xFFFFFFFFFFFFFFFF, 0],', '"returned_lba": [0xFFFFFFFF, 4],')]),
        "ndob-none-again": dict(edits=[("pyscsi/pyscsi/scsi_cdb_writesame16.py", "        if not ndob:\n            self.dataout = data", "        self.dataout = None if ndob else data")]),
        "writesame10-nb-offset": dict(edits=[("pyscsi/pyscsi/scsi_cdb_writesame10.py", '"nb": [0xFFFF, 7],', '"nb": [0xFF, 8],')]),
        "read12-tl-offset": dict(edits=[("pyscsi/pyscsi/scsi_cdb_read12.py", '"tl": [0xFFFFFFFF, 6],', '"tl": [0xFFFF, 8],')]),
        "keep-group-mask-unused": dict(kind="keep", edits=[("pyscsi/pyscsi/scsi_cdb_read10.py", "        SCSICommand.__init__(self, opcode, 0, blocksize * tl)", "        SCSICommand.__init__(self, opcode, 0, tl * blocksize)")]),
    },
    "C15": {
        "no-finally": dict(edits=[(DEV, "            try:\n                self.close()\n            finally:\n                self.open()", "            self.close()\n            self.open()")]),
        "ino-never-refreshed": dict(edits=[(DEV, "        self._ino = get_inode(self._file_name)", "        if self._ino is None:\n            self._ino = get_inode(self._file_name)")]),
        "skip-check-readonly": dict(edits=[(DEV, "        if self._detect_replugged and self._is_replugged():", "        if self._detect_replugged and self._read_write and self._is_replugged():")]),
        "swallow-enoent": dict(edits=[(DEV, "        ino = get_inode(self._file_name)\n        return ino != self._ino", "        try:\n            ino = get_inode(self._file_name)\n        except FileNotFoundError:\n            return False\n        return ino != self._ino")]),
        "exit-no-close-on-exception": dict(edits=[(DEV, "        self.close()\n\n    def __repr__", "        if exc_type is None:\n            self.close()\n\n    def __repr__")]),
        "facade-exit-no-close": dict(edits=[(SCSI, "        self.device.close()", "        pass")]),
        "detect-off-still-reopens": dict(edits=[(DEV, "        if self._detect_replugged and self._is_replugged():", "        if self._is_replugged():")]),
        "wrong-mode": dict(edits=[(DEV, '"w+b" if self._read_write else "rb"', '"rb" if self._read_write else "w+b"')]),
        "iscsi-exit-no-close": dict(edits=[(ISC, "        # we may need to do more teardown here ?\n        self.close()", "        # we may need to do more teardown here ?\n        pass")]),
        "reopen-without-close": dict(edits=[(DEV, "            try:\n                self.close()\n            finally:\n                self.open()", "            self.open()")]),
        "keep-fstat": dict(kind="keep", edits=[(DEV, "        self._ino = get_inode(self._file_name)", "        self._ino = os.fstat(self._file.fileno()).st_ino")]),
    },
    "C16": {
        "type-to-other-branch": dict(edits=[(SCSI, "                0x00,\n                0x04,\n                0x07,\n", "                0x00,\n                0x04,\n"), (SCSI, "(0x01, 0x02, 0x09)", "(0x01, 0x02, 0x09, 0x07)")]),
        "mask-0f": dict(edits=[("pyscsi/pyscsi/scsi_cdb_inquiry.py", '"peripheral_device_type": [0x1F, 0],', '"peripheral_device_type": [0x0F, 0],')]),
        "skip-init-in-call": dict(edits=[(SCSI, "        self.device = dev\n        self.__init_opcode()\n\n    def __enter__", "        self.device = dev\n\n    def __enter__")]),
        "cache-on-facade": dict(edits=[(SCSI, "        if self.device is not None:\n            self.device.devicetype", "        if self.device is not None and getattr(self, '_seen', None) is not None:\n            self.device.opcodes = self._seen\n            self.device.devicetype = self._seen_type\n        elif self.device is not None:\n            self._seen_type = self.inquiry().result['peripheral_device_type']\n            self.device.devicetype"),
                                       (SCSI, "                self.device.opcodes = mmc\n", "                self.device.opcodes = mmc\n            self._seen = self.device.opcodes\n")]),
        "two-inquiries": dict(edits=[(SCSI, "            self.device.devicetype = self.inquiry().result[", "            self.inquiry()\n            self.device.devicetype = self.inquiry().result[")]),
        "vpd-inquiry": dict(edits=[(SCSI, "            self.device.devicetype = self.inquiry().result[", "            self.device.devicetype = self.inquiry(evpd=1).result[")]),
        "mmc-to-sbc": dict(edits=[(SCSI, "                self.device.opcodes = mmc", "                self.device.opcodes = sbc")]),
        "keep-elif-order": dict(kind="keep", edits=[(SCSI, "            elif self.device.devicetype in (0x03,):  # spc\n                self.device.opcodes = spc\n", "")]),
    },
    "C09": {
        "class-level-layout-again": dict(edits=[("pyscsi/pyscsi/scsi_command.py", "        self.cdb = SCSICommand.init_cdb(opcode)\n", "        self.cdb = SCSICommand.init_cdb(opcode)\n        SCSICommand._cdb_bits = self._cdb_bits\n"),
                                                ("pyscsi/pyscsi/scsi_command.py", "        decode_bits(cdb, cls._cdb_bits, result)", "        decode_bits(cdb, SCSICommand._cdb_bits, result)")]),
        "last-cdb-length-cache": dict(edits=[("pyscsi/pyscsi/scsi_command.py", "        self.cdb = SCSICommand.init_cdb(opcode)\n", "        self.cdb = SCSICommand.init_cdb(opcode)\n        SCSICommand._last_len = len(self.cdb)\n"),
                                             ("pyscsi/pyscsi/scsi_command.py", '        result = bytearray(cls.cdb_length(cdb["opcode"]))', "        result = bytearray(SCSICommand._last_len)")]),
        "converter-scratch-buffer": dict(edits=[("pyscsi/utils/converter.py", "def scsi_int_to_ba(to_convert=0, array_size=4):", "_scratch = bytearray(16)\n\n\ndef scsi_int_to_ba(to_convert=0, array_size=4):"),
                                                ("pyscsi/utils/converter.py", "    return bytearray((to_convert >> i * 8) & 0xFF for i in reversed(range(array_size)))", "    if array_size > 16:\n        return bytearray((to_convert >> i * 8) & 0xFF for i in reversed(range(array_size)))\n    for i in range(array_size):\n        _scratch[i] = (to_convert >> ((array_size - 1 - i) * 8)) & 0xFF\n    return bytearray(_scratch[:array_size])")]),
        "result-dict-class-attr": dict(edits=[("pyscsi/pyscsi/scsi_command.py", "        result = {}\n        decode_bits(cdb, cls._cdb_bits, result)\n        return result", "        result = SCSICommand._shared_result\n        result.clear()\n        decode_bits(cdb, cls._cdb_bits, result)\n        return dict(result)"),
                                              ("pyscsi/pyscsi/scsi_command.py", "    _cdb = None\n", "    _cdb = None\n    _shared_result = {}\n")]),
        "shared-datain-default": dict(edits=[("pyscsi/pyscsi/scsi_command.py", "        self.datain = bytearray(datain_alloclen)", "        self.datain = SCSICommand._pool.setdefault(datain_alloclen, bytearray(datain_alloclen))"),
                                             ("pyscsi/pyscsi/scsi_command.py", "    _cdb = None\n", "    _cdb = None\n    _pool = {}\n")]),
        "keep-lock-around-encode": dict(kind="keep", edits=[("pyscsi/pyscsi/scsi_command.py", "from pyscsi.utils.converter import CheckDict, decode_bits, encode_dict", "import threading\n\nfrom pyscsi.utils.converter import CheckDict, decode_bits, encode_dict\n\n_lock = threading.Lock()"),
                                                            ("pyscsi/pyscsi/scsi_command.py", '        result = bytearray(cls.cdb_length(cdb["opcode"]))\n        encode_dict(cdb, cls._cdb_bits, result)\n        return result', '        with _lock:\n            result = bytearray(cls.cdb_length(cdb["opcode"]))\n            encode_dict(cdb, cls._cdb_bits, result)\n        return result')]),
        "keep-instance-layout": dict(kind="keep", edits=[("pyscsi/pyscsi/scsi_command.py", "        self.cdb = SCSICommand.init_cdb(opcode)\n", "        self.cdb = SCSICommand.init_cdb(opcode)\n        self._layout = dict(self._cdb_bits)\n")]),
    },
}
