#!/venv/bin/python
"""Determinism self-test: for every claimed property
  1. N seeded runs executed one by one in fresh interpreters under PYTHONHASHSEED 0, 1 and 'random', twice each:
     all event digests per run index must agree;
  2. the same batch executed by the pool with 1, 5 and 16 workers: the set of digests must be identical.
usage: determinism.py [N] [PROP ...]"""
import json
import os
import subprocess
import sys
import tempfile

HERE = os.path.dirname(os.path.dirname(os.path.abspath(__file__)))
PY = "/venv/bin/python"
PROPS = ["C07", "C08", "C09", "C11", "C12", "C13", "C15", "C16", "C17", "C18", "C19"]


def main():
    args = sys.argv[1:]
    n = int(args[0]) if args and args[0].isdigit() else 40
    props = [a.upper() for a in args if not a.isdigit()] or PROPS
    bad = 0
    for p in props:
        ref = None
        for hs in ("0", "1", "random", "0"):
            env = dict(os.environ, PYTHONHASHSEED=hs, VERIF_SEED=os.environ.get("VERIF_SEED", "3"))
            out = subprocess.run([PY, os.path.join(HERE, "check.py"), p, "--digests", "0:%d" % n], env=env, capture_output=True, text=True)
            try:
                d = json.loads(out.stdout.strip().splitlines()[-1])
            except Exception:
                print("%s: FAILED to get digests (hashseed %s): %s" % (p, hs, (out.stdout + out.stderr)[-300:]))
                bad += 1
                continue
            if ref is None:
                ref = d
            elif d != ref:
                diff = [k for k in ref if ref[k] != d.get(k)]
                print("%s: NONDETERMINISTIC under PYTHONHASHSEED=%s: runs %s" % (p, hs, diff[:10]))
                bad += 1
        sets = []
        count = str(min(n * 4, 400))
        for w in ("1", "5", "16"):
            with tempfile.NamedTemporaryFile(suffix=".json") as tf:
                env = dict(os.environ, VERIF_SEED=os.environ.get("VERIF_SEED", "3"), PYTHONHASHSEED="0" if w != "5" else "7")
                subprocess.run([PY, os.path.join(HERE, "check.py"), p, "--count", count, "--workers", w, "--no-evidence", "--no-selfcheck",
                                "--dump-digests", tf.name], env=env, capture_output=True, text=True)
                try:
                    sets.append(json.load(open(tf.name)))
                except Exception:
                    sets.append(None)
        if any(s is None for s in sets) or not (sets[0] == sets[1] == sets[2]):
            print("%s: digest sets differ between 1, 5 and 16 workers (%s)" % (p, [len(s) if s else None for s in sets]))
            bad += 1
        else:
            print("%s: deterministic (%d single runs x 4 interpreters; %d-run batch x {1,5,16} workers -> %d digests)" % (p, n, int(count), len(sets[0])))
    return 1 if bad else 0


if __name__ == "__main__":
    sys.exit(main())
