#!/venv/bin/python
"""Sensitivity / specificity self-test: apply a textual mutation to a scratch
copy of /repo (under /tmp, removed afterwards), optionally run the 45-test
suite on it, run one check against the copy and report whether it alarms.

usage: mutate.py <PROP> <mutant-name>|all [--tests] [--tier quick] [--count N]"""
import importlib
import os
import shutil
import subprocess
import sys
import tempfile

HERE = os.path.dirname(os.path.abspath(__file__))
sys.path.insert(0, HERE)
PY = "/venv/bin/python"


def load():
    import mutants
    return mutants.MUTANTS


def run_one(prop, name, spec, tests=False, count=None, tier="quick"):
    tmp = tempfile.mkdtemp(prefix="verif_mut_")
    try:
        dst = os.path.join(tmp, "repo")
        shutil.copytree("/repo", dst, ignore=shutil.ignore_patterns(".git", "__pycache__", "*.egg-info"))
        for (path, old, new) in spec["edits"]:
            p = os.path.join(dst, path)
            s = open(p).read()
            if old not in s:
                return {"name": name, "error": "pattern not found in %s" % path}
            open(p, "w").write(s.replace(old, new, 1))
        res = {"name": name, "kind": spec.get("kind", "break")}
        if tests:
            t = subprocess.run([PY, "-m", "pytest", "-q", "-p", "no:cacheprovider", "-x", "tests"], cwd=dst, capture_output=True, text=True,
                               env=dict(os.environ, PYTHONPATH=dst))
            res["tests_pass"] = t.returncode == 0
            res["tests_tail"] = t.stdout.strip().splitlines()[-1] if t.stdout.strip() else t.stderr[-200:]
        cmd = [PY, os.path.join(os.path.dirname(HERE), "check.py"), prop, "--repo", dst, "--no-evidence", "--tier", tier]
        if count:
            cmd += ["--count", str(count)]
        c = subprocess.run(cmd, capture_output=True, text=True)
        res["rc"] = c.returncode
        res["viol"] = [l for l in c.stdout.splitlines() if l.startswith("VIOLATION")][:3]
        res["sigs"] = [l.strip() for l in c.stdout.splitlines() if l.strip().startswith("signature")][:4]
        res["harness"] = [l[:300] for l in c.stdout.splitlines() if l.startswith("HARNESS")][:2]
        res["tail"] = c.stdout.strip().splitlines()[-1] if c.stdout.strip() else c.stderr[-300:]
        return res
    finally:
        shutil.rmtree(tmp, ignore_errors=True)


def main():
    args = [a for a in sys.argv[1:] if not a.startswith("--")]
    tests = "--tests" in sys.argv
    count = None
    tier = "quick"
    for i, a in enumerate(sys.argv):
        if a == "--count":
            count = int(sys.argv[i + 1])
            args = [x for x in args if x != sys.argv[i + 1]]
        if a == "--tier":
            tier = sys.argv[i + 1]
            args = [x for x in args if x != sys.argv[i + 1]]
    prop = args[0].upper()
    which = args[1] if len(args) > 1 else "all"
    M = load().get(prop, {})
    ok = True
    for name, spec in M.items():
        if which != "all" and which != name:
            continue
        r = run_one(prop, name, spec, tests, count, tier)
        if "error" in r:
            print("%-40s ERROR %s" % (name, r["error"]))
            ok = False
            continue
        want = 1 if spec.get("kind", "break") == "break" else 0
        verdict = "OK " if r["rc"] == want else "MISS" if want == 1 else "FALSE-ALARM"
        if r["rc"] != want:
            ok = False
        print("%-40s %-11s rc=%d %s %s" % (name, verdict, r["rc"], ("tests=%s" % r.get("tests_pass")) if tests else "", (r["sigs"][:2] or r["harness"] or [r["tail"]])))
    return 0 if ok else 1


if __name__ == "__main__":
    sys.exit(main())
