#!/bin/bash
# all self-tests: determinism at scale, hand mutants (sensitivity) and behaviour-preserving rewrites (specificity)
cd "$(dirname "$0")/.."
/venv/bin/python selftest/determinism.py ${1:-40} || exit 1
rc=0
for p in C07 C08 C09 C11 C12 C13 C15 C16 C17 C18 C19; do
  echo "== mutants $p"
  /venv/bin/python selftest/mutate.py $p all || rc=1
done
exit $rc
