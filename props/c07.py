"""C07 - a command that did not complete with GOOD never looks successful.

Workload: sequences of commands (direct device.execute and facade methods) on
an SG_IO device and an iSCSI device, with status / sense / ioctl faults
injected inside commands.  Oracle: per command, from what the stub binding
actually delivered (status byte, sense bytes handed to the library)."""

from sim import facade as F
from sim import worlds
from sim.seams import WORLD, install, import_pyscsi
from t10 import sense as S

ID = "C07"
LEVEL = "fault_enumeration"
COUNTS = {"quick": 6000, "thorough": 400000}
RULE = ("seeded programs of 1-20 commands on {SG_IO, iSCSI} x {direct execute, 38 facade methods} x raw-sense on/off with "
        "status(all 256 bytes)/sense/ioctl faults attached to commands, plus the enumerated sub-space "
        "status byte x transport x raw x call path; a run is non-trivial when at least one fault fired inside a command; "
        "distinct = distinct event-log digest")
ENUMERATED_NOTE = "status byte (256) x transport (2) x {direct TEST UNIT READY with raw on/off, every applicable facade method}: complete in the thorough tier, a fixed subset in quick"
COMPONENTS = {"real": ["pyscsi.pyscsi.scsi.SCSI", "SCSIDevice", "ISCSIDevice", "all command classes", "SCSICheckCondition", "exception metaclasses"],
              "stubs": ["sgio module", "iscsi module", "virtual /dev (open/os.stat)"],
              "simulated_peers": ["t10.targets BlockLU/ChangerLU/MmcLU/GenericLU"]}
ASSUMPTIONS = [
    "sgio stub follows cython-sgio: CHECK CONDITION with sense -> CheckConditionError(sense[:max_sense_data_length]); any other non-GOOD outcome -> UnspecifiedError",
    "iscsi stub exposes Task.status and Task.raw_sense as iscsi_device.py uses them",
    "on SG_IO a non-GOOD, non-CHECK-CONDITION status is only required to raise *some* exception (the binding does not tell the library the byte)",
    "sense payloads in this check are fixed and descriptor format, current (70h/72h) and - one in eight - deferred (71h/73h); unknown response codes are C08's",
]
ALSO_OPTIMIZED = True      # the whole check is repeated under `python -O` (a status guard written as an assert vanishes there)
REQUIRED_PROBES = ["status", "cc_raised_ok", "named_status_ok", "command_object_reused", "call_inside_with", "reattach_judged"]

NO_DECODE = {"testunitready", "write10", "write12", "write16", "writesame10", "synchronizecache10", "synchronizecache16",
             "preventallowmediumremoval", "movemedium", "positiontoelement", "initializeelementstatus", "read10", "read12", "read16"}
KINDS = [F.BLOCK, F.BLOCK, F.CHANGER, F.MMC, F.ANY]
TRANSPORTS = ["sgio", "iscsi"]
INTERESTING = [0x02, 0x04, 0x08, 0x18, 0x28, 0x30, 0x40]


def setup(repo):
    install()
    import_pyscsi(repo)


def gen_sense(rng):
    key = rng.randrange(16)
    if key == 0x0C:          # reserved sense key: whether it is printable is C08's business
        key = 0x05
    if rng.random() < 0.7:
        asc, ascq = rng.choice(sorted(S.ASC_TEXT))
    else:
        asc, ascq = rng.randrange(256), rng.randrange(256)
    # mostly current errors (70h/72h); a deferred error (71h/73h) is a CHECK CONDITION like any other: the command was not executed
    deferred = rng.random() < 0.12
    if rng.random() < 0.6:
        return S.fixed(key, asc, ascq, valid=rng.randrange(2), info=rng.randrange(1 << 32), length=rng.choice([18, 18, 20, 32, 64, 96, 252, 14, 14, 13, 15, 17]),
                       response_code=0x71 if deferred else 0x70)
    return S.descriptor(key, asc, ascq, length=rng.choice([8, 8, 12, 20, 32, 60]), response_code=0x73 if deferred else 0x72)


def gen_fault(rng):
    r = rng.random()
    if r < 0.04:
        # CHECK CONDITION for which the transport has no sense data (autosense failed): no buffer at all, or an empty one
        return {"kind": "sense_payload", "sense": "", "no_sense": rng.random() < 0.6}
    if r < 0.12:
        return {"kind": "ioctl_error", "errno": rng.choice([5, 19, 16])}
    if r < 0.55:
        b = 0x02
    elif r < 0.8:
        b = rng.choice(INTERESTING)
    else:
        b = rng.randrange(1, 256)
    f = {"kind": "status", "byte": b}
    if b == 0x02:
        f["sense"] = gen_sense(rng).hex()
    return f


def gen_op(rng, cfg, p_fault):
    kind = cfg["kind"]
    r = rng.random()
    op = {"transport": rng.choice(TRANSPORTS)}
    if r < 0.05:
        # the facade is pointed at its device again (s(dev)): the identifying INQUIRY is a command like any other
        op.update(via="reattach", m="inquiry", raw=False, args=[], kw={})
    elif r < 0.3:
        op.update(via="direct", m=rng.choice(["testunitready", "inquiry", "reportluns"]), raw=rng.random() < 0.5)
        op.update(args=[], kw={})
        if rng.random() < 0.35:
            op["reuse"] = True      # execute the command object of the previous direct op on this transport again (polling / retry loop)
    else:
        m = rng.choice(F.methods_for(kind))
        op.update(via="facade", **F.gen_call(rng, m, cfg))
    op["fault"] = gen_fault(rng) if rng.random() < p_fault else None
    if op.get("reuse") and rng.random() < 0.3:
        # the retry of a failed command fails again, this time without sense data
        op["fault"] = {"kind": "sense_payload", "sense": "", "no_sense": rng.random() < 0.5}
    if rng.random() < 0.08:
        # the application makes the call inside `with device:` or `with facade:`; an error must leave the block
        op["in_with"] = rng.choice(["device", "facade"])
    if op["fault"] and rng.random() < 0.15:
        # a second fault for the case that the library issues another command inside this call (e.g. a retry)
        op["fault2"] = gen_fault(rng) if rng.random() < 0.7 else dict(op["fault"])
    return op


def generate(rng, idx, tier):
    kind = rng.choice(KINDS)
    cfg = F.default_cfg(kind, bs=rng.choice([512, 512, 4096, 1, 520]), nblocks=rng.choice([1 << 20, 1 << 33, 64]))
    p_fault = rng.choice([0.0, 0.15, 0.3, 0.6, 1.0])
    n = rng.choice([1, 1, 2, 3, 3, 5, 8, 13, 20])
    prog = {"property": ID, "config": {"lu": cfg, "p_fault": p_fault,
                                       "attach_fault": {t: (gen_fault(rng) if rng.random() < 0.1 else None) for t in TRANSPORTS}},
            "ops": [gen_op(rng, cfg, p_fault) for _ in range(n)]}
    return prog


# ---- enumerated sub-space -------------------------------------------------
def _enum_space(tier):
    out = []
    statuses = range(256) if tier == "thorough" else [0, 1, 2, 3, 4, 8, 0x18, 0x28, 0x30, 0x40, 0xFF]
    for t in TRANSPORTS:
        for b in range(256):
            for raw in (False, True):
                out.append(("direct", t, b, raw, "testunitready", F.BLOCK))
    for kind in (F.BLOCK, F.CHANGER, F.MMC):
        for m in F.methods_for(kind):
            if kind != F.BLOCK and F.BLOCK in F.METHODS[m][0]:
                continue
            for t in TRANSPORTS:
                for b in statuses:
                    out.append(("facade", t, b, None, m, kind))
    return out


_ENUM = {}


def enumerated_count(tier):
    if tier not in _ENUM:
        _ENUM[tier] = _enum_space(tier)
    return len(_ENUM[tier])


def enumerated(k, tier):
    import random
    enumerated_count(tier)
    via, t, b, raw, m, kind = _ENUM[tier][k]
    rng = random.Random(k * 7919 + 17)
    cfg = F.default_cfg(kind)
    fault = None
    if b != 0:
        fault = {"kind": "status", "byte": b}
        if b == 2:
            fault["sense"] = gen_sense(rng).hex()
    op = {"transport": t, "via": via, "fault": fault}
    if via == "direct":
        op.update(m=m, raw=raw, args=[], kw={})
    else:
        op.update(F.gen_call(rng, m, cfg))
    return {"property": ID, "config": {"lu": cfg, "p_fault": 1.0, "attach_fault": {"sgio": None, "iscsi": None}}, "ops": [op]}


# ---- execution --------------------------------------------------------------
def _build_direct(scsi, dev, op):
    from pyscsi.pyscsi.scsi_cdb_inquiry import Inquiry
    from pyscsi.pyscsi.scsi_cdb_report_luns import ReportLuns
    from pyscsi.pyscsi.scsi_cdb_testunitready import TestUnitReady
    if op["m"] == "testunitready":
        return TestUnitReady(dev.opcodes.TEST_UNIT_READY)
    if op["m"] == "inquiry":
        return Inquiry(dev.opcodes.INQUIRY)
    return ReportLuns(dev.opcodes.REPORT_LUNS)


def _raw_equals(got, handed):
    if not isinstance(got, (bytes, bytearray, memoryview)):
        return False
    return bytes(got) == handed


def _show(x):
    return bytes(x).hex() if isinstance(x, (bytes, bytearray, memoryview)) else repr(x)[:80]


def judge(dev, op, kind, val, deliveries, cmd, V, where):
    """Append violations to V for one executed command."""
    if not deliveries:
        WORLD.probe("no_delivery")
        return
    d = deliveries[-1]      # a call that issued several commands is judged on the last completion
    if len(deliveries) > 1:
        WORLD.probe("several_commands_in_one_call")
    dev_cls = type(dev)
    raw = bool(op.get("raw")) or op["m"].startswith("atapassthrough")
    if d.get("oserror") is not None:
        if kind == "ok":
            V.append(dict(oracle="C07.ioctl-error-swallowed", where=where, detail="errno",
                          expected="an exception (the binding raised OSError)", actual="returned normally"))
        else:
            WORLD.probe("ioctl_error_raised")
        return
    st = d["status"]
    if st == S.GOOD:
        status_errors = tuple(getattr(dev_cls, n) for n in ["CheckCondition"] + sorted(S.NAMED_STATUS.values())
                              if isinstance(getattr(dev_cls, n, None), type))
        if kind == "exc" and isinstance(val, status_errors):
            V.append(dict(oracle="C07.phantom-error", where=where, detail=type(val).__name__,
                          expected="no status error: the target reported GOOD", actual=repr(val)[:120]))
        elif kind == "exc" and (op.get("via") == "direct" or op["m"] in NO_DECODE):
            # nothing is decoded on this path: a command the target completed with GOOD must simply return
            # (e.g. no sticky failure state left behind by an earlier faulted command)
            V.append(dict(oracle="C07.good-command-fails", where=where, detail=type(val).__name__,
                          expected="returns normally: the target reported GOOD", actual=repr(val)[:120]))
        elif kind == "ok":
            WORLD.probe("good_returned")
        return
    if st == S.CHECK_CONDITION and d["handed"]:
        handed = d["handed"]
        exp = S.decode(handed)
        if kind == "ok":
            c = cmd if cmd is not None else val
            if not raw:
                V.append(dict(oracle="C07.cc-looks-successful", where=where, detail="raw=0",
                              expected="CheckCondition(key=%#x asc=%#04x ascq=%#04x)" % (exp["key"], exp["asc"], exp["ascq"]),
                              actual="returned normally"))
            else:
                got = getattr(c, "raw_sense_data", None)
                if not _raw_equals(got, handed):
                    V.append(dict(oracle="C07.raw-sense-not-attached", where=where, detail="raw=1",
                                  expected="raw_sense_data == %s or a CheckCondition" % handed.hex(),
                                  actual="returned normally with raw_sense_data=%s" % _show(got)))
                else:
                    WORLD.probe("cc_raw_returned_ok")
            return
        cc_cls = getattr(dev_cls, "CheckCondition", None)
        if not (isinstance(cc_cls, type) and isinstance(val, cc_cls)):
            V.append(dict(oracle="C07.cc-wrong-exception", where=where, detail=type(val).__name__,
                          expected="%s.CheckCondition" % dev_cls.__name__, actual=repr(val)[:160]))
            return
        others = [n for n in S.NAMED_STATUS.values() if isinstance(getattr(dev_cls, n, None), type) and isinstance(val, getattr(dev_cls, n))]
        if others:
            V.append(dict(oracle="C07.status-indistinguishable", where=where, detail="check-condition",
                          expected="%s.CheckCondition, caught by no other status' error class" % dev_cls.__name__,
                          actual="%r is also caught by `except %s.%s`" % (val, dev_cls.__name__, others[0])))
        try:
            got = (val.data.get("sense_key") if isinstance(getattr(val, "data", None), dict) else None, val.asc, val.ascq)
        except Exception as e:  # noqa
            got = "unreadable: %r" % (e,)
        if got != (exp["key"], exp["asc"], exp["ascq"]):
            V.append(dict(oracle="C07.cc-wrong-values", where=where, detail="fmt=%s" % exp["fmt"],
                          expected="key/asc/ascq = %r" % ((exp["key"], exp["asc"], exp["ascq"]),), actual=repr(got)))
        else:
            WORLD.probe("cc_raised_ok")
        if raw and cmd is not None and getattr(cmd, "raw_sense_data", None) is not None and not _raw_equals(cmd.raw_sense_data, handed):
            V.append(dict(oracle="C07.raw-sense-modified", where=where, detail="raw=1",
                          expected=handed.hex(), actual=repr(cmd.raw_sense_data)[:120]))
        return
    if st == S.CHECK_CONDITION and d["transport"] == "iscsi":
        # CHECK CONDITION, but the binding has no sense data for it: it still is a CHECK CONDITION and must surface as one
        WORLD.probe("cc_without_sense")
        cc_cls = getattr(dev_cls, "CheckCondition", None)
        if kind == "ok":
            V.append(dict(oracle="C07.cc-looks-successful", where=where, detail="no-sense", expected="CheckCondition", actual="returned normally"))
        elif not (isinstance(cc_cls, type) and isinstance(val, cc_cls)):
            V.append(dict(oracle="C07.cc-wrong-exception", where=where, detail="no-sense/" + type(val).__name__,
                          expected="%s.CheckCondition (the target reported CHECK CONDITION; no sense data was available)" % dev_cls.__name__, actual=repr(val)[:120]))
        else:
            # this failure came without sense data: it must not be reported with the sense of an earlier failure of the same command object
            prev = op.get("_prev_handed")
            if prev:
                pe = S.decode(prev)
                try:
                    got = (val.data.get("sense_key") if isinstance(getattr(val, "data", None), dict) else None, val.asc, val.ascq)
                except Exception:  # noqa
                    got = None
                if pe["fmt"] and got == (pe["key"], pe["asc"], pe["ascq"]) and any(got):
                    V.append(dict(oracle="C07.cc-stale-sense", where=where, detail="no-sense-after-sense",
                                  expected="a CheckCondition without decoded sense (none was delivered with this failure)",
                                  actual="key/asc/ascq %r - the sense data of the command object's previous execution" % (got,)))
        return
    # any other non-GOOD completion (incl. CHECK CONDITION without sense on SG_IO, where the binding reports only an unspecified error)
    if kind == "ok":
        V.append(dict(oracle="C07.status-looks-successful", where=where, detail="status=%#04x" % st,
                      expected="an exception for status %#04x" % st, actual="returned normally"))
        return
    if d["transport"] == "iscsi" and st in S.NAMED_STATUS:
        want = getattr(dev_cls, S.NAMED_STATUS[st], None)
        if not (isinstance(want, type) and isinstance(val, want)):
            V.append(dict(oracle="C07.status-wrong-exception", where=where, detail="status=%#04x" % st,
                          expected="%s.%s" % (dev_cls.__name__, S.NAMED_STATUS[st]), actual=repr(val)[:120]))
        else:
            # "distinguishable": a caller catching the error of another status (retry on BusyStatus, say) must not catch this one
            others = [n for n in list(S.NAMED_STATUS.values()) + ["CheckCondition"] if n != S.NAMED_STATUS[st]
                      and isinstance(getattr(dev_cls, n, None), type) and isinstance(val, getattr(dev_cls, n))]
            if others:
                V.append(dict(oracle="C07.status-indistinguishable", where=where, detail="status=%#04x" % st,
                              expected="%s.%s, caught by no other status' error class" % (dev_cls.__name__, S.NAMED_STATUS[st]),
                              actual="%r is also caught by `except %s.%s`" % (val, dev_cls.__name__, others[0])))
            else:
                WORLD.probe("named_status_ok")
    else:
        WORLD.probe("other_status_raised")


def execute(prog):
    WORLD.reset()
    SCSI, SCSIDevice, ISCSIDevice = worlds.lib()
    cfg = prog["config"]["lu"]
    V = []
    devs = {}
    scsis = {}
    lus = {}
    for n, t in enumerate(TRANSPORTS):
        lu = lus[t] = worlds.make_lu(cfg, ident=n + 1)
        devs[t] = worlds.open_device(t, lu)
        af = prog["config"]["attach_fault"].get(t)
        if af:
            WORLD.arm(af)
        mark = len(WORLD.deliveries)
        kind, val = worlds.outcome_of(lambda: SCSI(devs[t], blocksize=cfg["bs"]))
        op = {"m": "inquiry", "raw": False}
        judge(devs[t], op, kind, val, WORLD.deliveries[mark:], None, V, "attach/%s" % t)
        if kind == "ok":
            scsis[t] = val
        else:
            # attach failed (fault on the attach INQUIRY): attach again, fault free
            WORLD.armed.clear()
            scsis[t] = SCSI(devs[t], blocksize=cfg["bs"])
    summary = []
    last_direct = {}
    for i, op in enumerate(prog["ops"]):
        t = op["transport"]
        dev, scsi = devs[t], scsis[t]
        WORLD.ev("op", i=i, via=op["via"], m=op["m"], transport=t)
        WORLD.armed.clear()
        if op.get("fault"):
            WORLD.arm(op["fault"])
        if op.get("fault2"):
            WORLD.arm(op["fault2"])
        mark = len(WORLD.deliveries)
        cmd = None
        if op["via"] == "reattach":
            WORLD.probe("reattach_judged")
            call = lambda: scsi(dev)
        elif op["via"] == "direct":
            prev = last_direct.get(t)
            if op.get("reuse") and prev is not None and prev[0] == op["m"]:
                cmd = prev[1]
                op = dict(op, _prev_handed=prev[2])
                WORLD.probe("command_object_reused")
            else:
                cmd = _build_direct(scsi, dev, op)
            last_direct[t] = [op["m"], cmd, None]
            call = (lambda: dev.execute(cmd, en_raw_sense=op["raw"])) if op["raw"] else (lambda: dev.execute(cmd))
        else:
            args = F.real_args(op["args"])
            kw = F.real_args(op["kw"])
            call = lambda: getattr(scsi, op["m"])(*args, **kw)
        if op.get("in_with"):
            WORLD.probe("call_inside_with")
            mgr = dev if op["in_with"] == "device" else scsi

            def in_block(call=call, mgr=mgr):
                with mgr:
                    return call()
            kind, val = worlds.outcome_of(in_block)
        else:
            kind, val = worlds.outcome_of(call)
        where = "%s/%s" % (t, op["via"])
        judge(dev, op, kind, val, WORLD.deliveries[mark:], cmd, V, where)
        if op["via"] == "direct" and t in last_direct and WORLD.deliveries[mark:]:
            last_direct[t][2] = WORLD.deliveries[-1].get("handed") or last_direct[t][2]
        out = "ok" if kind == "ok" else type(val).__name__
        WORLD.ev("op.end", i=i, outcome=out)
        summary.append(out)
        if op.get("in_with"):
            # leaving the block closed the device: the application opens it again for what follows (fault free)
            WORLD.armed.clear()
            devs[t] = worlds.open_device(t, lus[t])
            scsis[t] = SCSI(devs[t], blocksize=cfg["bs"])
            last_direct.pop(t, None)
    stats = {"events": len(WORLD.events)}
    for k, v in WORLD.fired.items():
        stats["fired." + k] = v
    for k, v in WORLD.probes.items():
        stats["probe." + k] = v
    return {"digest": WORLD.digest(), "violations": V, "nontrivial": bool(WORLD.fired), "stats": stats,
            "summary": summary, "events_tail": WORLD.events[-6:]}


def simplify(prog):
    """candidates that are simpler than prog"""
    import copy
    for i, op in enumerate(prog["ops"]):
        if op["via"] == "facade" and op["kw"]:
            c = copy.deepcopy(prog)
            c["ops"][i]["kw"] = {}
            yield c
        if op.get("fault") and op["fault"].get("sense"):
            s = bytes.fromhex(op["fault"]["sense"])
            d = S.decode(s)
            simple = S.fixed(d["key"], d["asc"], d["ascq"]) if d["fmt"] == "fixed" else S.descriptor(d["key"], d["asc"], d["ascq"])
            if simple != s:
                c = copy.deepcopy(prog)
                c["ops"][i]["fault"]["sense"] = simple.hex()
                yield c
        if op["transport"] == "iscsi":
            c = copy.deepcopy(prog)
            c["ops"][i]["transport"] = "sgio"
            yield c
    for t in TRANSPORTS:
        if prog["config"]["attach_fault"].get(t):
            c = copy.deepcopy(prog)
            c["config"]["attach_fault"][t] = None
            yield c
    if prog["config"]["lu"].get("bs") not in (512, 2048):
        c = copy.deepcopy(prog)
        c["config"]["lu"]["bs"] = 512
        yield c
