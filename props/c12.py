"""C12 - data written through the library is read back intact from a
conformant target, identically over SG_IO and iSCSI.

Workload: histories of block commands on two identically initialised BlockLUs
(one per transport); oracle: a sparse-disk reference model evaluated after
every command, plus op-by-op equality of the two transports."""

import copy

from sim import facade as F
from sim import worlds
from sim.seams import WORLD, install, import_pyscsi
from t10 import sense as S
from t10 import targets as T

ID = "C12"
LEVEL = "exploration"
COUNTS = {"quick": 3000, "thorough": 150000}
RULE = ("seeded histories of 3-40 block commands (WRITE/READ 10/12/16, WRITE SAME 10/16 incl. NDOB/UNMAP/ANCHOR, SYNCHRONIZE CACHE, "
        "READ CAPACITY (all fields of the 16-byte form varied), INQUIRY, some out of range) with boundary-biased LBAs over capacities "
        "up to 2**64-1, block sizes {1,3,512,520,4096}; 12% of the histories on a writable MMC unit (type 05h, 2048-byte sectors, "
        "READ/WRITE 10/12), 8% identity-only on a unit of any of the 32 device types; rare single commands moving 16 MiB +/- one block; "
        "devices opened read-write by the constructors or by init_device (the SG_IO stub refuses data-out on a read-only descriptor); unique payload per write, run on an SG_IO device and an iSCSI device; fault-free and status-fault "
        "configurations are separate. Non-trivial = at least one read returned data written earlier in the same history; "
        "distinct = event digest")
COMPONENTS = {"real": ["SCSI facade", "Read/Write/WriteSame/SynchronizeCache/ReadCapacity/Inquiry command classes", "SCSIDevice", "ISCSIDevice"],
              "stubs": ["sgio module", "iscsi module (moves data by the Task's direction/length)", "virtual /dev"],
              "simulated_peers": ["t10.targets.BlockLU (sparse disk, decodes CDBs from the standard)", "t10.targets.MmcLU (same disk behind the MMC command set)", "t10.targets.GenericLU (identity only)"]}
ASSUMPTIONS = [
    "the BlockLU ignores UNMAP (allowed) and rejects ANCHOR without UNMAP, NUMBER OF LOGICAL BLOCKS = 0 beyond 65536 blocks, and out-of-range LBAs with the SBC sense codes",
    "transfer lengths above 2**17 blocks (1-byte blocks) resp. 16 MiB + one block are not explored (the library allocates blocksize*tl bytes)",
    "result names read: returned_lba, block_length, p_type, prot_en, p_i_exponent, lbppbe, lbpme, lbprz, lowest_aligned_lba, t10_vendor_identification, product_identification, product_revision_level, peripheral_device_type",
]
REQUIRED_PROBES = ["readback_written", "lba_above_32bit", "ndob", "out_of_range_cc", "status", "shared_facade", "mmc_unit", "geometry16_ok", "via_init_device", "vpd_pages_ok", "wwn_ok"]

BS = [512, 512, 1, 1, 3, 520, 4096]
CAPS = [64, 1 << 20, (1 << 32) + 1000, (1 << 40), (1 << 64) - 1]
TRANSPORTS = ("sgio", "iscsi")
MAX_WS = T.BlockLU.MAX_WS_IMPLICIT


def setup(repo):
    install()
    import_pyscsi(repo)


def _lba(rng, bits, nblocks, tl, hot):
    top = min((1 << bits) - 1, max(nblocks - tl, 0))
    r = rng.random()
    if hot and r < 0.55:
        return min(rng.choice(hot), top)
    if r < 0.65:
        return top
    if r < 0.7:
        return 0
    return min(F.biased(rng, bits), top)


def gen_op(rng, cfg, hot, counter):
    bs, nb = cfg["bs"], cfg["nblocks"]
    r = rng.random()
    width = rng.choice([10, 12, 16])
    bits = 64 if width == 16 else 32
    big = bs == 1
    huge = None
    if bs in (512, 520, 4096) and nb >= (1 << 20) and rng.random() < 0.006:
        # one command that moves 16 MiB or a little more or less (transport length fields of 24 bits end there)
        huge = (1 << 24) // bs + rng.choice([-1, 0, 1])
    if r < 0.3:
        tl = rng.choice([0, 1, 1, 2, 3, 7] + ([255, 256, 4097, 65535, 65536, 65537, 1 << 17] if big and width != 10 else []) + ([255, 256, 65535] if big else []))
        if huge:
            tl = huge
        if width == 10:
            tl = min(tl, 65535)
        lba = _lba(rng, bits, nb, tl, hot)
        hot.append(lba)
        op = {"op": "write%d" % width, "lba": lba, "tl": tl, "seed": counter}
    elif r < 0.45:
        width = rng.choice([10, 16])
        bits = 64 if width == 16 else 32
        n = rng.choice([1, 1, 2, 5, 64, 0] + ([1000] if big else []))
        lba = _lba(rng, bits, nb, max(n, 1), hot)
        hot.append(lba)
        op = {"op": "writesame%d" % width, "lba": lba, "nb": n, "seed": counter}
        if rng.random() < 0.3:
            op["unmap"] = 1
        if rng.random() < 0.15:
            op["anchor"] = 1
        if width == 16 and rng.random() < 0.35:
            op["ndob"] = 1
    elif r < 0.8:
        tl = rng.choice([0, 1, 1, 2, 3, 8] + ([255, 256, 4097, 65535] if big else []) + ([65536, 65537, 100000, 1 << 17] if big and width != 10 else []))
        if huge:
            tl = huge
        if width == 10:
            tl = min(tl, 65535)
        lba = _lba(rng, bits, nb, tl, hot)
        if hot and rng.random() < 0.3:
            lba = max(0, min(rng.choice(hot) - rng.randrange(0, 3), (1 << bits) - 1))
        op = {"op": "read%d" % width, "lba": lba, "tl": tl}
    elif r < 0.86:
        width = rng.choice([10, 16])
        bits = 64 if width == 16 else 32
        n = rng.choice([0, 1, 8, 100])
        op = {"op": "synchronizecache%d" % width, "lba": _lba(rng, bits, nb, n, hot), "n": n}
    elif r < 0.93:
        op = {"op": rng.choice(["readcapacity10", "readcapacity16"])}
    else:
        # identity: the standard data, the list of supported VPD pages, the device identification page (world wide names)
        op = {"op": rng.choice(["inquiry", "inquiry", "vpd00", "vpd83"])}
    if op["op"].startswith(("read1", "write1", "writesame", "sync")) and "lba" in op:
        if rng.random() < 0.06:       # deliberately out of range
            limit = (1 << (64 if op["op"].endswith("16") else 32)) - 1
            op["lba"] = min(nb + rng.choice([0, 1, 5]), limit)
            if "tl" in op and op["tl"] == 0:
                op["tl"] = 1
        if rng.random() < 0.4:
            op["flags"] = {}
            for name in (("dpo", "fua") if not op["op"].startswith(("writesame", "sync")) else ()):
                if rng.random() < 0.4:
                    op["flags"][name] = 1
            if op["op"].startswith("read1") and rng.random() < 0.3:
                op["flags"]["rarc"] = 1
            if op["op"].startswith("read1") and rng.random() < 0.3:
                op["flags"]["rdprotect"] = rng.randrange(8)
            if op["op"].startswith(("write1", "writesame")) and rng.random() < 0.3:
                op["flags"]["wrprotect"] = rng.randrange(8)
            if op["op"].startswith("sync") and rng.random() < 0.4:
                op["flags"]["immed"] = 1
            if rng.random() < 0.4:
                op["flags"]["group"] = rng.randrange(32)
    return op


MMC_OPS = ("read10", "read12", "write10", "write12", "inquiry", "vpd00", "vpd83")      # the block commands the library's MMC command set carries


def generate(rng, idx, tier):
    cfg = {"kind": F.BLOCK, "bs": rng.choice(BS), "nblocks": rng.choice(CAPS), "dev_type": rng.choice([0, 0, 4, 7]),
           "inq_len": rng.choice([36, 96, 96, 58, 74, 255])}
    # what READ CAPACITY(16) reports besides the capacity: protection, physical block exponent, provisioning, alignment
    cfg["geom"] = {"p_type": rng.choice([0, 0, 1, 2, 3, 5]), "prot_en": rng.randrange(2), "p_i_exp": rng.choice([0, 0, 1, 3, 15]),
                   "lbppbe": rng.choice([0, 3, 3, 4, 12]), "lbpme": rng.randrange(2), "lbprz": rng.randrange(2),
                   "lowest_aligned": rng.choice([0, 0, 1, 7, 0x3FFF, rng.randrange(1 << 14)])}
    allowed = None
    r = rng.random()
    if r < 0.12:
        # a writable MMC unit (DVD-RAM, BD-RE): 2048-byte sectors, 10- and 12-byte READ/WRITE
        cfg.update(dev_type=5, bs=2048, nblocks=rng.choice([64, 1 << 20, (1 << 32) - 1]))
        allowed = MMC_OPS
    elif r < 0.2:
        # identity only: a logical unit of any of the 32 peripheral device types answers INQUIRY
        cfg.update(dev_type=rng.randrange(32))
        allowed = ("inquiry", "vpd00", "vpd83") if cfg["dev_type"] not in (0, 4, 7) else None
    n = rng.choice([3, 4, 6, 8, 8, 12, 20, 40]) if allowed is None or "read10" in allowed else rng.choice([1, 2, 3])
    faulty = rng.random() < 0.25
    hot = []
    ops = []
    for i in range(n):
        op = gen_op(rng, cfg, hot, idx * 1000 + i + 1)
        while allowed is not None and op["op"] not in allowed:
            op = gen_op(rng, cfg, hot, idx * 1000 + i + 1)
        if faulty and rng.random() < 0.25:
            b = rng.choice([0x02, 0x02, 0x08, 0x18, 0x28, 0x40, 0x30, 0x04])
            op["fault"] = {"kind": "status", "byte": b}
            if b == 2:
                op["fault"]["sense"] = S.fixed(rng.choice([2, 3, 4, 6, 0xB]), *rng.choice([(0x04, 0x01), (0x29, 0x00), (0x11, 0x00), (0x44, 0x00)])).hex()
            if rng.random() < 0.2:
                # the transport itself fails (ioctl error / connection lost): the command never reached the logical unit
                op["fault"] = {"kind": "ioctl_error", "errno": rng.choice([5, 19, 104, 110])}
        ops.append(op)
    return {"property": ID, "config": {"lu": cfg, "faulty": faulty, "d_sense": rng.random() < 0.3, "shared_facade": rng.random() < 0.4,
                                       # how the application gets its device objects: the constructors, or init_device(path, read_write=True)
                                       "via_init_device": rng.random() < 0.3}, "ops": ops}


# ---- reference model -------------------------------------------------------
class Model:
    def __init__(self, bs, nblocks):
        self.bs, self.n = bs, nblocks
        self.blocks = {}
        self.written = set()

    def expect(self, op):
        """-> ('ok', data-or-None) | ('cc', (key, asc, ascq)); applies effects"""
        name = op["op"]
        if name.startswith("read1"):
            if op["lba"] + op["tl"] > self.n:
                return "cc", T.LBA_OUT_OF_RANGE
            z = bytes(self.bs)
            return "ok", b"".join(self.blocks.get(op["lba"] + i, z) for i in range(op["tl"]))
        if name.startswith("write1"):
            if op["lba"] + op["tl"] > self.n:
                return "cc", T.LBA_OUT_OF_RANGE
            data = bytes(F.pattern(op["seed"], op["tl"] * self.bs))
            for i in range(op["tl"]):
                self.blocks[op["lba"] + i] = data[i * self.bs:(i + 1) * self.bs]
                self.written.add(op["lba"] + i)
            return "ok", None
        if name.startswith("writesame"):
            if op.get("anchor") and not op.get("unmap"):
                return "cc", T.INVALID_FIELD_CDB
            nb = op["nb"]
            if op["lba"] >= self.n and (nb or op["lba"] > self.n):
                return "cc", T.LBA_OUT_OF_RANGE
            if nb == 0:
                nb = self.n - op["lba"]
            if nb > MAX_WS:
                return "cc", T.INVALID_FIELD_CDB
            if op["lba"] + nb > self.n:
                return "cc", T.LBA_OUT_OF_RANGE
            block = bytes(self.bs) if op.get("ndob") else bytes(F.pattern(op["seed"], self.bs))
            for i in range(nb):
                self.blocks[op["lba"] + i] = block
                self.written.add(op["lba"] + i)
            return "ok", None
        if name.startswith("synchronizecache"):
            if op["lba"] + op["n"] > self.n:
                return "cc", T.LBA_OUT_OF_RANGE
            return "ok", None
        return "ok", None


def call(scsi, op, bs):
    name = op["op"]
    fl = op.get("flags", {})
    if name.startswith("read1"):
        return getattr(scsi, name)(op["lba"], op["tl"], **fl)
    if name.startswith("write1"):
        return getattr(scsi, name)(op["lba"], op["tl"], F.pattern(op["seed"], op["tl"] * bs), **fl)
    if name.startswith("writesame"):
        kw = dict(fl)
        for k in ("unmap", "anchor", "ndob"):
            if op.get(k):
                kw[k] = 1
        data = None if op.get("ndob") else F.pattern(op["seed"], bs)
        return getattr(scsi, name)(op["lba"], op["nb"], data, **kw)
    if name.startswith("synchronizecache"):
        return getattr(scsi, name)(op["lba"], op["n"], **fl)
    if name == "vpd00":
        return scsi.inquiry(evpd=1, page_code=0x00, alloclen=255)
    if name == "vpd83":
        return scsi.inquiry(evpd=1, page_code=0x83, alloclen=255)
    return getattr(scsi, name)()


def _outcome_repr(kind, val, name):
    if kind == "exc":
        try:
            return "exc:%s:%r" % (type(val).__name__, (val.data.get("sense_key"), val.asc, val.ascq) if hasattr(val, "asc") else str(val)[:60])
        except Exception:  # noqa
            return "exc:%s" % type(val).__name__
    if name.startswith("read1"):
        import hashlib
        return "ok:%d:%s" % (len(val.datain), hashlib.sha256(bytes(val.datain)).hexdigest()[:16])
    if name.startswith("readcapacity") or name in ("inquiry", "vpd00", "vpd83"):
        r = val.result
        keys = ("returned_lba", "block_length", "peripheral_device_type", "t10_vendor_identification", "product_revision_level",
                "p_type", "prot_en", "p_i_exponent", "lbppbe", "lbpme", "lbprz", "lowest_aligned_lba", "page_code", "vpd_pages")
        return "ok:%r" % [(k, bytes(r[k]).hex() if isinstance(r.get(k), (bytes, bytearray)) else r.get(k)) for k in keys if k in r]
    return "ok"


def execute(prog):
    WORLD.reset()
    SCSI, SCSIDevice, ISCSIDevice = worlds.lib()
    cfg = prog["config"]["lu"]
    bs = cfg["bs"]
    V = []
    side = {}
    shared = None
    WORLD.flags["enforce_open_mode"] = True      # like the sg driver: no data-out command through a descriptor opened read-only
    WORLD.flags["ua_on_relogin"] = True          # a conformant target: a new I_T nexus after an earlier one starts with a unit attention condition

    def attach_failed(t, e):
        V.append(dict(oracle="C12.unexpected-error", where="%s/attach" % t, detail=type(e).__name__,
                      expected="a device object and a facade with block size %d for a conformant %d-byte-block unit" % (bs, bs), actual=repr(e)[:120]))
        return {"digest": WORLD.digest(), "violations": V, "nontrivial": False, "stats": {"events": len(WORLD.events)}, "summary": ["attach failed"],
                "events_tail": WORLD.events[-4:]}

    for n, t in enumerate(TRANSPORTS):
        lu = worlds.make_lu(cfg, ident=7 + n)       # two physically distinct, identically initialised LUs
        lu.d_sense = bool(prog["config"].get("d_sense"))
        lu.inq_len = cfg.get("inq_len", 96)
        if cfg.get("geom") and hasattr(lu, "geom"):
            lu.geom = dict(cfg["geom"])
        if hasattr(lu, "_blk"):
            lu._blk.d_sense = lu.d_sense
            WORLD.probe("mmc_unit")
        try:
            if prog["config"].get("via_init_device"):
                from pyscsi.utils import init_device
                if t == "sgio":
                    WORLD.plug(worlds.SG_PATH, lu)
                    dev = init_device(worlds.SG_PATH, read_write=True)
                else:
                    WORLD.iscsi_targets[worlds.ISCSI_KEY] = lu
                    dev = init_device(worlds.ISCSI_URL, read_write=True)
                WORLD.probe("via_init_device")
            else:
                dev = worlds.open_device(t, lu, readwrite=True) if t == "sgio" else worlds.open_device(t, lu)
            if prog["config"].get("shared_facade"):
                # one facade object, re-pointed to the other device before every command (s(dev))
                if shared is None:
                    shared = SCSI(dev, blocksize=bs)
                else:
                    shared(dev)
                scsi = shared
                WORLD.probe("shared_facade")
            else:
                scsi = SCSI(dev, blocksize=bs)
        except Exception as e:  # noqa - building the objects is part of what is judged
            return attach_failed(t, e)
        side[t] = {"lu": lu, "dev": dev, "scsi": scsi, "model": Model(bs, cfg["nblocks"])}
    summary = []
    retained = []       # data buffers of earlier reads the application keeps (the command object itself is dropped)
    for i, op in enumerate(prog["ops"]):
        name = op["op"]
        reprs = {}
        for t in TRANSPORTS:
            s = side[t]
            WORLD.ev("op", i=i, op=name, transport=t)
            WORLD.armed.clear()
            if shared is not None:
                shared(s["dev"])        # re-point the one facade object to this device (fault free)
            if op.get("fault"):
                WORLD.arm(op["fault"])
            mark = len(WORLD.deliveries)
            nlog = len(s["lu"].log)
            kind, val = worlds.outcome_of(lambda: call(s["scsi"], op, bs))
            dl = WORLD.deliveries[mark:]
            where = "%s/%s" % (t, name)
            reprs[t] = _outcome_repr(kind, val, name)
            faulted = bool(dl) and (dl[0].get("fault") == "status" or dl[0].get("oserror") is not None)
            if faulted:
                # the target refused before executing: no effect in the model.  Which error surfaces is C07's business,
                # but over both transports alike the caller must not be told the command was done
                if kind == "ok":
                    what = ("status=%#04x" % dl[0]["status"]) if dl[0].get("status") is not None else "transport-error"
                    V.append(dict(oracle="C12.failed-command-looks-done", where=where, detail=what,
                                  expected="an error: %s was not executed (%s)" % (name, what),
                                  actual="returned normally after %d command(s) on the wire" % len(dl)))
                reprs[t] = "exc" if kind == "exc" else "ok"
                WORLD.ev("op.end", i=i, transport=t, outcome=reprs[t])
                continue
            if name.startswith(("read1", "write1")) and op["lba"] >= (1 << 32):
                WORLD.probe("lba_above_32bit")
            if op.get("ndob"):
                WORLD.probe("ndob")
            seen = [e for e in s["lu"].log[nlog:] if e[0] not in ("?", "!fault")]
            if len(seen) == 1 and name.startswith(("read1", "write1", "writesame", "synchronizecache")):
                f = seen[0][1]
                sent = {"lba": op["lba"]}
                if "tl" in op:
                    sent["tl"] = op["tl"]
                if "nb" in op:
                    sent["nb"] = op["nb"]
                if "n" in op:
                    sent["numblks"] = op["n"]
                for k in f:
                    if k in ("lba", "tl", "nb", "numblks"):
                        continue
                    sent[k] = op.get("flags", {}).get(k, op.get(k, 0) if k in ("unmap", "anchor", "ndob") else 0)
                bad = sorted(k for k in f if f[k] != sent.get(k, 0))
                if bad:
                    V.append(dict(oracle="C12.target-saw-other-arguments", where=where, detail=",".join(bad),
                                  expected="the target decodes %s" % {k: sent.get(k, 0) for k in bad},
                                  actual="it received %s (CDB fields per SBC)" % {k: f[k] for k in bad}))
            want_kind, want = s["model"].expect(op)
            if want_kind == "cc":
                ok = False
                if kind == "exc":
                    cc_cls = getattr(type(s["dev"]), "CheckCondition", None)
                    if isinstance(cc_cls, type) and isinstance(val, cc_cls):
                        try:
                            ok = (val.data.get("sense_key"), val.asc, val.ascq) == tuple(want)
                        except Exception:  # noqa
                            ok = False
                if not ok:
                    V.append(dict(oracle="C12.illegal-request-not-reported", where=where, detail="%x/%02x/%02x" % tuple(want),
                                  expected="CheckCondition %r (the target refuses this request)" % (tuple(want),), actual=reprs[t]))
                else:
                    WORLD.probe("out_of_range_cc")
            elif kind == "exc":
                V.append(dict(oracle="C12.unexpected-error", where=where, detail=type(val).__name__,
                              expected="command completes (the conformant target accepts it)", actual="%s: %s" % (type(val).__name__, str(val)[:100])))
            else:
                if name.startswith("read1"):
                    got = bytes(val.datain)
                    if got != want:
                        first = next((j for j in range(min(len(got), len(want))) if got[j] != want[j]), min(len(got), len(want)))
                        V.append(dict(oracle="C12.readback", where=where, detail="len" if len(got) != len(want) else "data",
                                      expected="%d bytes, sha-prefix %s" % (len(want), want[:8].hex()),
                                      actual="%d bytes, first difference at byte %d (block %d)" % (len(got), first, first // max(bs, 1))))
                    elif any((op["lba"] + j) in s["model"].written for j in range(op["tl"])):
                        WORLD.probe("readback_written")
                    if got == want and len(retained) < 16 and len(got):
                        retained.append((val.datain, want, where))
                    val = None      # the application drops the command and keeps only the data
                elif name.startswith("readcapacity"):
                    last = cfg["nblocks"] - 1
                    exp_lba = min(last, 0xFFFFFFFF) if name.endswith("10") else last
                    r = val.result or {}
                    if r.get("returned_lba") != exp_lba or r.get("block_length") != bs:
                        V.append(dict(oracle="C12.geometry", where=where, detail="capacity",
                                      expected="returned_lba=%d block_length=%d" % (exp_lba, bs),
                                      actual="returned_lba=%r block_length=%r" % (r.get("returned_lba"), r.get("block_length"))))
                    if name.endswith("16"):
                        g = s["lu"].geom
                        exp = {"p_type": g["p_type"], "prot_en": g["prot_en"], "p_i_exponent": g["p_i_exp"], "lbppbe": g["lbppbe"],
                               "lbpme": g["lbpme"], "lbprz": g["lbprz"], "lowest_aligned_lba": g["lowest_aligned"]}
                        got = {k: r.get(k) for k in exp}
                        if got != exp:
                            bad = sorted(k for k in exp if got[k] != exp[k])
                            V.append(dict(oracle="C12.geometry", where=where, detail=",".join(bad),
                                          expected="READ CAPACITY(16) reports %s" % {k: exp[k] for k in bad},
                                          actual="%s" % {k: got[k] for k in bad}))
                        else:
                            WORLD.probe("geometry16_ok")
                elif name == "vpd00":
                    r = val.result or {}
                    want_pages = sorted(s["lu"].vpd_pages())
                    if r.get("page_code") != 0 or sorted(r.get("vpd_pages") or []) != want_pages:
                        V.append(dict(oracle="C12.identity", where=where, detail="supported-vpd-pages",
                                      expected="page_code 0 and vpd_pages %s" % want_pages, actual="page_code %r, vpd_pages %r; keys %s" % (r.get("page_code"), r.get("vpd_pages"), sorted(r)[:6])))
                    else:
                        WORLD.probe("vpd_pages_ok")
                elif name == "vpd83":
                    r = val.result or {}
                    lu = s["lu"]
                    got = []
                    for dd in r.get("designator_descriptors") or []:
                        d_ = dd.get("designator") if isinstance(dd, dict) else None
                        if isinstance(d_, dict) and d_.get("naa") in (5, 6):
                            got.append((d_.get("naa"), d_.get("ieee_company_id"), d_.get("vendor_specific_identifier"), d_.get("vendor_specific_identifier_extension")))
                    exp = [(6, lu.naa6[0], lu.naa6[1], lu.naa6[2]), (5, lu.naa5[0], lu.naa5[1], None)]
                    if sorted(got, key=repr) != sorted(exp, key=repr):
                        V.append(dict(oracle="C12.identity", where=where, detail="world-wide-names",
                                      expected="NAA designators (naa, company, vendor specific, extension) %s" % (exp,), actual="%s" % (got,)))
                    else:
                        WORLD.probe("wwn_ok")
                elif name == "inquiry":
                    r = val.result or {}
                    lu = s["lu"]
                    from t10.resp import pad_ascii
                    exp = {"peripheral_device_type": lu.dev_type, "t10_vendor_identification": pad_ascii(lu.vendor, 8),
                           "product_identification": pad_ascii(lu.product, 16), "product_revision_level": pad_ascii(lu.revision, 4)}
                    got = {k: (bytes(r[k]) if isinstance(r.get(k), (bytes, bytearray)) else r.get(k)) for k in exp}
                    if got != exp:
                        V.append(dict(oracle="C12.identity", where=where, detail="inquiry", expected=repr(exp), actual=repr(got)))
            # the target's disk must equal the model's after every command
            if getattr(s["lu"], "blocks", {}) != s["model"].blocks:
                diff = [k for k in set(s["lu"].blocks) | set(s["model"].blocks) if s["lu"].blocks.get(k) != s["model"].blocks.get(k)]
                V.append(dict(oracle="C12.disk-diverged", where=where, detail="blocks",
                              expected="target disk == model after %s" % name, actual="%d blocks differ, first lba %d" % (len(diff), min(diff))))
                s["model"].blocks = dict(s["lu"].blocks)   # resynchronise so later ops are judged on their own
            WORLD.ev("op.end", i=i, transport=t, outcome=reprs[t])
        if not op.get("fault") and reprs["sgio"] != reprs["iscsi"]:
            V.append(dict(oracle="C12.transports-differ", where=name, detail="outcome",
                          expected="identical outcome over SG_IO and iSCSI", actual="sgio=%s iscsi=%s" % (reprs["sgio"][:90], reprs["iscsi"][:90])))
        summary.append(reprs["sgio"][:40])
    for buf, want, where in retained:
        if bytes(buf) != want:
            V.append(dict(oracle="C12.retained-data-changed", where=where, detail="later-command",
                          expected="data read earlier (%d bytes) is still what was read" % len(want), actual="the buffer the caller kept was overwritten by a later command"))
    if retained:
        WORLD.probe("retained_buffers", len(retained))
    seen, out = set(), []
    for v in V:
        k = (v["oracle"], v["where"], v["detail"])
        if k not in seen:
            seen.add(k)
            out.append(v)
    stats = {"events": len(WORLD.events)}
    for k, v in WORLD.fired.items():
        stats["fired." + k] = v
    for k, v in WORLD.probes.items():
        stats["probe." + k] = v
    return {"digest": WORLD.digest(), "violations": out, "nontrivial": WORLD.probes.get("readback_written", 0) > 0,
            "stats": stats, "summary": summary, "events_tail": WORLD.events[-6:]}


def simplify(prog):
    for i, op in enumerate(prog["ops"]):
        if op.get("flags"):
            c = copy.deepcopy(prog)
            c["ops"][i].pop("flags")
            yield c
        if op.get("fault"):
            c = copy.deepcopy(prog)
            c["ops"][i].pop("fault")
            yield c
        for k in ("tl", "nb"):
            if op.get(k, 0) > 1:
                c = copy.deepcopy(prog)
                c["ops"][i][k] = 1
                yield c
        if op.get("lba", 0) > 0:
            for cand in (0, op["lba"] // 2):
                if cand != op["lba"]:
                    c = copy.deepcopy(prog)
                    c["ops"][i]["lba"] = cand
                    yield c
    if prog["config"]["lu"]["bs"] != 512:
        c = copy.deepcopy(prog)
        c["config"]["lu"]["bs"] = 512
        yield c
    if prog["config"]["lu"]["nblocks"] != 1 << 20:
        c = copy.deepcopy(prog)
        c["config"]["lu"]["nblocks"] = 1 << 20
        yield c
