"""C17 - invalid requests are refused before anything is sent.

Workload: live command histories (valid facade calls on a simulated device)
with invalid requests mixed in: block transfers with block size 0, operation
codes without a fixed CDB length (all 256 values), unknown PERSISTENT RESERVE
IN service actions, EXTENDED COPY descriptors with unknown keys / type codes,
inconsistent TransportIDs.  Oracle: the specific exception, NO event at any
seam between the start of the request and the exception, unchanged target
state, nothing returned."""

import copy
import random

from sim import facade as F
from sim import worlds
from sim.seams import WORLD, install, import_pyscsi
from t10 import cdb as C

ID = "C17"
LEVEL = "exploration"
COUNTS = {"quick": 4000, "thorough": 300000}
RULE = ("seeded histories of 2-16 requests on a simulated block device (SG_IO / iSCSI / plain recording object), a mix of valid "
        "facade calls and invalid ones of the five classes the property names, with the facade block size toggled between 0 and a "
        "real size; enumerated: every one of the 256 operation code values through SCSICommand.init_cdb and through a constructor, "
        "every block-size-needing method with block size 0, service actions -2..40. Non-trivial = at least one invalid request was "
        "made after at least one valid command reached the device; distinct = event digest")
ENUMERATED_NOTE = "256 opcode values x {init_cdb, constructor}; 10 block-size-needing methods at block size 0 x 3 devices; PR IN service actions -2..40; all 256 EXTENDED COPY descriptor type code values outside the defined ones x {target/CSCD, segment} position x {SPC-4, SPC-5}"
COMPONENTS = {"real": ["SCSI facade", "command constructors", "SCSICommand.init_cdb", "ExtendedCopy (SPC-4/5) validation", "marshall_transport_id", "SCSIDevice/ISCSIDevice"],
              "stubs": ["sgio module", "iscsi module", "virtual /dev", "plain recording device"],
              "simulated_peers": ["t10.targets.BlockLU"]}
ASSUMPTIONS = [
    "exception classes are compared by name (MissingBlocksizeException, OpcodeException: the metaclass mints one class per command class) or by type (ValueError)",
    "operation codes without a fixed CDB length are the groups 3, 6 and 7 (60h-7Fh, C0h-FFh) per SAM",
    "residue a refused construction may leave in shared state is judged by C09, not here",
]
ALSO_OPTIMIZED = True      # the whole check is repeated under `python -O` (a refusal written as an assert vanishes there)
REQUIRED_PROBES = ["refused_blocksize", "refused_opcode", "refused_service_action", "refused_xcopy", "refused_transport_id", "valid_between", "refusal_inside_with", "refused_again", "facade_default_blocksize"]

BS_METHODS = ["read10", "read12", "read16", "write10", "write12", "write16", "writesame10", "writesame16", "atapassthrough12", "atapassthrough16"]
NO_FIXED_LEN = set(range(0x60, 0x80)) | set(range(0xC0, 0x100))


def setup(repo):
    install()
    import_pyscsi(repo)


def gen_invalid(rng, cfg):
    r = rng.random()
    if r < 0.3:
        m = rng.choice(BS_METHODS)
        call = F.gen_call(rng, m, cfg)
        if m.startswith("atapassthrough"):
            call["args"][1] = rng.choice([1, 2, 3])   # t_length
            call["args"][2] = 1                        # byte_block
            call["args"][4] = 1                        # t_type
            call["kw"].pop("blocksize", None)
            if rng.random() < 0.3:
                call["kw"]["blocksize"] = 0
        elif m == "writesame16":
            call["kw"].pop("ndob", None)
            if call["args"][2] is None:
                call["args"][2] = {"$b": [1, 512]}
        return dict(op="invalid", kind="blocksize", **call)
    if r < 0.5:
        op = {"op": "invalid", "kind": "opcode", "value": rng.choice(sorted(NO_FIXED_LEN)), "via": rng.choice(["init_cdb", "ctor", "ctor_rw"])}
        if rng.random() < 0.4:
            # the OpCode object was used for a valid command before and then re-pointed through its public value setter
            op["first_value"] = rng.choice([0x00, 0x12, 0x28, 0x88, 0xA0, 0x5E])
        return op
    if r < 0.65:
        return {"op": "invalid", "kind": "service_action", "value": rng.choice([4, 5, 7, 31, 32, 255, -1, 1000])}
    if r < 0.85:
        ver = rng.choice([4, 5])
        what = rng.choice(["target_key", "segment_key", "segment_key", "segment_key_b2s", "target_code", "segment_code", "device_type", "lu_id_type"])
        # junk keys: invented names and names that other descriptor formats define (they are unknown to *this* format)
        junk = rng.choice(["bogus", "pad2", "x"]) if what != "segment_key" else rng.choice(["bogus", "x", "stream_device_transfer_length", "block_device_logical_block_address", "fixed", "pad"] + (["fco"] if ver == 4 else []))
        if rng.random() < 0.35:
            # near misses of real key names: pieces, prefixes, other spellings, the empty string, a non-string key
            junk = rng.choice(["length", "descriptor", "descriptor_length_", "type_code", "d", "_", "", "DC", "dc ", "block", "id", {"$int": 7}])
        if what == "segment_key_b2s":
            junk = rng.choice(["dc", "fco", "source_block_device_logical_block_address", "bogus"])
        return {"op": "invalid", "kind": "xcopy", "ver": ver, "what": what, "junk": junk, "falsy": rng.choice([None, None, "zero", "false", "empty", "name", "cross", "cross"]),
                "dt": rng.choice([4, 7, 2, 6, 8, 0x1F, rng.randrange(64)]),
                "code": rng.choice([0x10, 0x7F, 0xDF, 0xFF, 0x55]), "nvalid": rng.randrange(3)}
    op = {"op": "invalid", "kind": "transport_id", "what": rng.choice(["sid_no_format", "format_no_sid"]),
          "sa": rng.choice([0, 7]), "pos": rng.randrange(2), "same_name": rng.random() < 0.4, "n_good": rng.choice([1, 1, 2])}
    if op["what"] == "format_no_sid":
        op["fmt"] = rng.choice([1, 1, 1, True])
        op["sid"] = rng.choice(["absent", "absent", "none", "empty", "emptybytes", "zero"])   # every way of giving no session id
    else:
        op["fmt"] = rng.choice(["absent", "absent", "none", "zero"])
    return op


VALID = ["inquiry", "testunitready", "reportluns", "read10", "write16", "readcapacity16", "modesense6", "synchronizecache10",
         "persistentreservein", "persistentreserveout", "writesame10", "getlbastatus", "extendedcopy4", "extendedcopy5"]


def generate(rng, idx, tier):
    cfg = F.default_cfg(F.BLOCK)
    n = rng.choice([2, 3, 4, 6, 8, 12, 16])
    ops = []
    bs = rng.choice([0, 512])
    start_bs = bs
    for _ in range(n):
        r = rng.random()
        if r < 0.12:
            bs = 0 if bs else 512
            ops.append({"op": "set_blocksize", "v": bs})
        elif r < 0.55:
            ops.append(gen_invalid(rng, cfg))
            if rng.random() < 0.25:
                ops[-1]["twice"] = True       # the application tries the very same request again: it is refused again
            if rng.random() < 0.12:
                # the request is made inside `with SCSI(device) as s:` over an application-defined device whose close() returns a value
                ops[-1]["in_with"] = rng.choice([True, 1, "closed"])
        else:
            m = rng.choice(VALID)
            ops.append(dict(op="valid", **F.gen_call(rng, m, cfg)))
    return {"property": ID, "config": {"device": rng.choice(["sgio", "iscsi", "plain"]), "blocksize": start_bs, "omit_blocksize": rng.random() < 0.5}, "ops": ops}


# descriptor type codes the SPC-4/SPC-5 code spaces give to the two positions (segment descriptors 00h-1Fh and the ROD ones BEh/BFh;
# CSCD descriptors E0h-EFh, FEh, FFh).  Which of these a version defines differs (SPC-5 adds 18h, 19h, ECh, FEh), so inside the
# ranges nothing is demanded; everything outside them is an unknown code in either version
XCOPY_TARGET_CODES = set(range(0xE0, 0xF0)) | {0xFE, 0xFF}
XCOPY_SEGMENT_CODES = set(range(0x00, 0x20)) | {0xBE, 0xBF}


def enumerated_count(tier):
    return 256 * 2 + len(BS_METHODS) * 3 + 43 + 64


def enumerated(k, tier):
    cfg = F.default_cfg(F.BLOCK)
    rng = random.Random(k * 7 + 3)
    if k < 512:
        v, via = k % 256, ("init_cdb" if k < 256 else "ctor")
        return {"property": ID, "config": {"device": "plain", "blocksize": 512},
                "ops": [dict(op="valid", **F.gen_call(rng, "testunitready", cfg)), {"op": "opcode_any", "value": v, "via": via}]}
    k -= 512
    if k < len(BS_METHODS) * 3:
        m = BS_METHODS[k // 3]
        call = F.gen_call(rng, m, cfg)
        if m.startswith("atapassthrough"):
            call["args"][1], call["args"][2], call["args"][4] = 2, 1, 1
            call["kw"].pop("blocksize", None)
        if m == "writesame16":
            call["kw"].pop("ndob", None)
            call["args"][2] = {"$b": [1, 512]}
        return {"property": ID, "config": {"device": ["plain", "sgio", "iscsi"][k % 3], "blocksize": 0, "omit_blocksize": (k // 3) % 2 == 1},
                "ops": [dict(op="valid", **F.gen_call(rng, "inquiry", cfg)), dict(op="invalid", kind="blocksize", **call)]}
    k -= len(BS_METHODS) * 3
    if k >= 43:
        # every descriptor type code value outside the defined ones, in the target/CSCD and in the segment position, SPC-4 and SPC-5
        k -= 43
        ver, what, chunk = [4, 5][k // 32], ["target_code", "segment_code"][(k // 16) % 2], k % 16
        defined = XCOPY_TARGET_CODES if what == "target_code" else XCOPY_SEGMENT_CODES
        ops = [{"op": "invalid", "kind": "xcopy", "ver": ver, "what": what, "code": c, "exact": True, "nvalid": 1 + c % 2, "falsy": None, "junk": "x"}
               for c in range(chunk * 16, chunk * 16 + 16) if c not in defined]
        return {"property": ID, "config": {"device": ["plain", "sgio", "iscsi"][k % 3], "blocksize": 512},
                "ops": [dict(op="valid", **F.gen_call(rng, "testunitready", cfg))] + ops}
    sa = k - 2
    return {"property": ID, "config": {"device": "sgio", "blocksize": 512},
            "ops": [dict(op="valid", **F.gen_call(rng, "testunitready", cfg)), {"op": "service_action_any", "value": sa}]}


# ---- execution --------------------------------------------------------------
def xcopy_kwargs(op):
    spc5 = op["ver"] == 5
    tkey = "cscd_descriptor_list" if spc5 else "target_descriptor_list"
    mk = F._spc5 if spc5 else F._copy
    targets = [mk(F.TGT_DESC) for _ in range(max(op["nvalid"], 1))]
    segs = [mk(F.SEG_B2B) for _ in range(max(op["nvalid"], 1))]
    w = op["what"]
    junk = op.get("junk")
    if isinstance(junk, dict):
        junk = junk["$int"]
    if w == "target_key":
        targets[-1][junk] = 1
    elif w == "segment_key":
        segs[-1][junk] = 1
    elif w == "segment_key_b2s":
        b2s = {"descriptor_type_code": 0x00, "cat": 1, "stream_device_transfer_length": 8, "block_device_number_of_blocks": 4,
               "block_device_logical_block_address": 10}
        b2s["source_cscd_descriptor_id" if spc5 else "source_target_descriptor_id"] = 0
        b2s["destination_cscd_descriptor_id" if spc5 else "destination_target_descriptor_id"] = 1
        b2s[junk] = 1
        segs[-1] = b2s
    elif w in ("target_code", "segment_code") and op.get("exact"):
        (targets if w == "target_code" else segs)[-1]["descriptor_type_code"] = op["code"]
    elif w == "target_code":
        targets[-1]["descriptor_type_code"] = op["code"] if op["code"] not in range(0xE0, 0xEB) else 0x10
        if spc5 and op["code"] % 3 == 0:
            targets[-1]["descriptor_type_code"] = 0xE3       # Parallel Interface T_L: a CSCD type SPC-5 no longer defines
        if op.get("falsy") is not None:
            # "cross": the name of a *segment* descriptor type in a target/CSCD position (valid elsewhere, unknown here)
            targets[-1]["descriptor_type_code"] = {"zero": 0, "false": False, "empty": "", "name": "No such descriptor", "cross": F.SEG_NAME}[op["falsy"]]
    elif w == "segment_code":
        segs[-1]["descriptor_type_code"] = op["code"] if op["code"] > 0x20 else 0xFF
        if op.get("falsy") in ("empty", "name", "cross"):
            segs[-1]["descriptor_type_code"] = {"empty": "", "name": "No such descriptor", "cross": F.TGT_NAME[5 if spc5 else 4]}[op["falsy"]]
    elif w == "device_type":
        # peripheral device types an EXTENDED COPY CSCD/target descriptor may name: SPC-4 table 106 {00,01,03,04,05,07,0E}; SPC-5 dropped 04h and 07h
        valid = {0, 1, 3, 4, 5, 7, 0x0E} if not spc5 else {0, 1, 3, 5, 0x0E}
        invalid = [t for t in range(0x20) if t not in valid]
        dt = op.get("dt", 2)
        targets[-1]["peripheral_device_type"] = dt if dt in invalid else invalid[dt % len(invalid)]
    elif w == "lu_id_type":
        targets[-1]["lu_id_type"] = 1
    return {tkey: targets, "segment_descriptor_list": segs}


def execute(prog):
    WORLD.reset()
    import pyscsi.pyscsi.scsi_enum_command as E
    from pyscsi.pyscsi.scsi_command import SCSICommand
    from pyscsi.pyscsi.scsi_opcode import OpCode
    from pyscsi.pyscsi.scsi_cdb_testunitready import TestUnitReady
    from pyscsi.pyscsi.scsi_cdb_read10 import Read10
    SCSI, SCSIDevice, ISCSIDevice = worlds.lib()
    cfg = prog["config"]
    lu = worlds.make_lu(F.default_cfg(F.BLOCK), ident=3)
    if cfg["device"] == "plain":
        from props.c13 import PlainDevice
        dev = PlainDevice(E.sbc, lu, 0)
    else:
        dev = worlds.open_device(cfg["device"], lu)
    if cfg["blocksize"] == 0 and cfg.get("omit_blocksize"):
        scsi = SCSI(dev)                 # the application never says a block size: the facade's documented default is "none"
        WORLD.probe("facade_default_blocksize")
    else:
        scsi = SCSI(dev, blocksize=cfg["blocksize"])
    V = []
    summary = []
    sent_valid = 0
    where = cfg["device"]

    def refused(fn, want, kindname, probe, detail):
        """run an invalid request; judge exception, seam silence, target state"""
        nonlocal sent_valid
        ev0, dl0, st0 = len(WORLD.events), len(WORLD.deliveries), lu.state_digest()
        log0 = len(lu.log)
        if WITH:
            def in_block(fn=fn, mgr=WITH[0]):
                with mgr:
                    return fn()
            kind, val = worlds.outcome_of(in_block)
            WORLD.probe("refusal_inside_with")
        else:
            kind, val = worlds.outcome_of(fn)
        seam = [e["kind"] for e in WORLD.events[ev0:]]
        ok_exc = kind == "exc" and (type(val).__name__ == want if isinstance(want, str) else isinstance(val, want))
        wname = want if isinstance(want, str) else want.__name__
        if kind == "ok":
            V.append(dict(oracle="C17.not-refused", where=where, detail="%s/%s" % (kindname, detail),
                          expected="%s and nothing sent" % wname, actual="returned %r; seam events %s" % (val, seam)))
        elif not ok_exc:
            V.append(dict(oracle="C17.wrong-error", where=where, detail="%s/%s/%s" % (kindname, detail, type(val).__name__),
                          expected=wname, actual=repr(val)[:140]))
        if seam or len(WORLD.deliveries) != dl0 or len(lu.log) != log0:
            V.append(dict(oracle="C17.sent-before-refusal", where=where, detail="%s/%s" % (kindname, detail),
                          expected="no event at any seam before the refusal", actual="events %s" % seam))
        if lu.state_digest() != st0:
            V.append(dict(oracle="C17.state-changed", where=where, detail="%s/%s" % (kindname, detail),
                          expected="target state unchanged", actual="state digest changed"))
        if ok_exc and not seam:
            WORLD.probe(probe)
            if sent_valid:
                WORLD.probe("valid_between")
        return "refused" if ok_exc else ("ok" if kind == "ok" else type(val).__name__)

    WITH = []
    outer = scsi
    model_bs = [cfg["blocksize"]]      # the block size the application gave the facade (0 = none); the facade's own idea is not consulted
    for i, op in enumerate(prog["ops"]):
        WORLD.ev("op", i=i, op=op["op"], what=op.get("kind"))
        name = op["op"]
        del WITH[:]
        scsi = outer
        if op.get("in_with") and name == "invalid" and op.get("kind") != "opcode":
            from props.c13 import PlainDevice as _PD
            d2 = _PD(E.sbc, lu, 0)
            d2.close_returns = op["in_with"]
            scsi = SCSI(d2, blocksize=outer.blocksize)      # the closures below see this facade
            WITH.append(scsi)
        if name == "set_blocksize":
            scsi.blocksize = op["v"]
            model_bs[0] = op["v"]
            summary.append("bs=%d" % op["v"])
        elif name == "valid":
            dl0 = len(WORLD.deliveries)
            kind, val = worlds.outcome_of(lambda: getattr(scsi, op["m"])(*F.real_args(op["args"]), **F.real_args(op["kw"])))
            if len(WORLD.deliveries) > dl0:
                sent_valid += 1
            summary.append("%s:%s" % (op["m"], "ok" if kind == "ok" else type(val).__name__))
        elif name == "invalid" and op["kind"] == "blocksize":
            m = op["m"]
            args, kw = F.real_args(op["args"]), F.real_args(op["kw"])
            if not m.startswith("atapassthrough") and model_bs[0] != 0:
                # only invalid while the facade has no block size: make it so for this request
                saved = scsi.blocksize
                scsi.blocksize = 0
                summary.append(refused(lambda: getattr(scsi, m)(*args, **kw), "MissingBlocksizeException", "blocksize", "refused_blocksize", m))
                scsi.blocksize = saved
            else:
                summary.append(refused(lambda: getattr(scsi, m)(*args, **kw), "MissingBlocksizeException", "blocksize", "refused_blocksize", m))
        elif name == "invalid" and op["kind"] == "opcode" or name == "opcode_any":
            v = op["value"]
            oc = OpCode("X_%02X" % v, v, {})
            if "first_value" in op:
                oc = OpCode("X_%02X" % v, op["first_value"], {})
                worlds.outcome_of(lambda: SCSICommand.init_cdb(oc))
                worlds.outcome_of(lambda: TestUnitReady(oc))
                oc.value = v
            if op["via"] == "init_cdb":
                fn = lambda: SCSICommand.init_cdb(oc)
            elif op["via"] == "ctor":
                fn = lambda: TestUnitReady(oc)
            else:
                fn = lambda: Read10(oc, 512, 0, 1)
            if v in NO_FIXED_LEN:
                summary.append(refused(fn, "OpcodeException", "opcode", "refused_opcode", "grp%d" % (v >> 5)))
            else:
                kind, val = worlds.outcome_of(fn)
                want = C.cdb_len(v)
                got = len(val) if kind == "ok" and op["via"] == "init_cdb" else (len(val.cdb) if kind == "ok" else None)
                if got != want:
                    V.append(dict(oracle="C17.valid-opcode-refused", where=where, detail="grp%d" % (v >> 5),
                                  expected="opcode %#04x accepted with a %d-byte CDB" % (v, want), actual="%s" % (got if kind == "ok" else repr(val)[:80])))
                summary.append("opcode-ok")
        elif name == "invalid" and op["kind"] == "service_action" or name == "service_action_any":
            v = op["value"]
            if v in (0, 1, 2, 3):
                kind, val = worlds.outcome_of(lambda: scsi.persistentreservein(v))
                if kind == "exc":
                    V.append(dict(oracle="C17.valid-service-action-refused", where=where, detail="sa=%d" % v,
                                  expected="PERSISTENT RESERVE IN service action %d accepted" % v, actual=repr(val)[:80]))
                summary.append("sa-ok")
            else:
                summary.append(refused(lambda: scsi.persistentreservein(v), ValueError, "service_action", "refused_service_action", "sa"))
        elif name == "invalid" and op["kind"] == "xcopy":
            kw = xcopy_kwargs(op)
            meth = scsi.extendedcopy5 if op["ver"] == 5 else scsi.extendedcopy4
            summary.append(refused(lambda: meth(**kw), ValueError, "xcopy%d" % op["ver"], "refused_xcopy", op["what"] + ("=%#04x" % op["code"] if op.get("exact") else "")))
            if op.get("twice"):
                kw2 = xcopy_kwargs(op)        # equal arguments, fresh objects
                meth = scsi.extendedcopy5 if op["ver"] == 5 else scsi.extendedcopy4
                WORLD.probe("refused_again")
                summary.append(refused(lambda: meth(**kw2), ValueError, "xcopy%d" % op["ver"], "refused_xcopy", op["what"] + "/again"))
        elif name == "invalid" and op["kind"] == "transport_id":
            if op["what"] == "sid_no_format":
                tid = {"protocol_id": 5, "iscsi_name": "iqn.2026-10.verif:a", "iscsi_initiator_session_id": "00023d000001"}
                if op.get("fmt", "absent") != "absent":
                    tid["tpid_format"] = {"none": None, "zero": 0}[op["fmt"]]
            else:
                tid = {"protocol_id": 5, "iscsi_name": "iqn.2026-10.verif:a", "tpid_format": op.get("fmt", 1)}
                if op.get("sid", "absent") != "absent":
                    tid["iscsi_initiator_session_id"] = {"none": None, "empty": "", "emptybytes": b"", "zero": 0}[op["sid"]]
            # the other, valid entries of the list; optionally for the same initiator port name as the inconsistent one
            good = {"protocol_id": 5, "iscsi_name": "iqn.2026-10.verif:a" if op.get("same_name") else "iqn.2026-10.verif:ok"}
            if op["sa"] == 7:
                fn = lambda: scsi.persistentreserveout(7, reservation_key=1, service_action_reservation_key=2, transport_id=tid)
            else:
                goods = [dict(good) for _ in range(op.get("n_good", 1))]
                tids = goods + [tid] if op["pos"] else [tid] + goods
                fn = lambda: scsi.persistentreserveout(0, service_action_reservation_key=2, spec_i_pt=1, transport_ids=tids)
            summary.append(refused(fn, ValueError, "transport_id", "refused_transport_id", op["what"]))
    out, sigs = [], set()
    for v in V:
        k = (v["oracle"], v["where"], v["detail"])
        if k not in sigs:
            sigs.add(k)
            out.append(v)
    stats = {"events": len(WORLD.events)}
    for k, v in WORLD.probes.items():
        stats["probe." + k] = v
    return {"digest": WORLD.digest(), "violations": out, "nontrivial": WORLD.probes.get("valid_between", 0) > 0,
            "stats": stats, "summary": summary, "events_tail": WORLD.events[-5:]}


def simplify(prog):
    if prog["config"]["device"] != "plain":
        c = copy.deepcopy(prog)
        c["config"]["device"] = "plain"
        yield c
    for i, op in enumerate(prog["ops"]):
        if op.get("kw"):
            c = copy.deepcopy(prog)
            c["ops"][i]["kw"] = {}
            yield c
