"""C15 - commands never go through a stale device handle; handles are
released.  Workload: histories of execute / replug / unplug / plug /
close-failure / CHECK CONDITION / close events on a SCSIDevice over a virtual
/dev namespace (and on an ISCSIDevice for the release clause), detection on
and off, read-only and read-write, plain / `with device` / `with SCSI(device)`.
Oracle: a handle model evaluated over the seam history after every event."""

import copy

from sim import facade as F
from sim import worlds
from sim.seams import WORLD, install, import_pyscsi
from t10 import sense as S
from t10 import targets as T

ID = "C15"
LEVEL = "exploration"
COUNTS = {"quick": 6000, "thorough": 500000}
RULE = ("seeded histories of 2-25 events from {execute, replug (optionally another device type), unplug, plug, arm close failure "
        "(raises-but-releases / raises-and-stays-open), arm CHECK CONDITION, re-open refused once by the OS, node vanishing between the "
        "library's open() and its next system call, device returning under another kernel name, a facade built midway (its INQUIRY possibly failing), a second user "
        "of the same node, close} with simulated time passing between the events (0 to a day), on SCSIDevice (detect_replugged "
        "on/off, read-only/read-write; named by node path or by a persistent symbolic link; built directly or by init_device; plain, `with device`, `with SCSI(device)`, left normally or by exception) and ISCSIDevice; biased to a replug "
        "right before a command and a close failure while a replug is pending. Non-trivial = at least one command was issued after a "
        "replug/unplug event; distinct = event digest")
COMPONENTS = {"real": ["SCSIDevice (open/close/execute/_is_replugged/__exit__)", "ISCSIDevice (close/__exit__)", "SCSI.__enter__/__exit__"],
              "stubs": ["virtual /dev namespace behind builtins.open / os.stat (inodes, handles, close faults)", "sgio module", "iscsi module"],
              "simulated_peers": ["t10.targets LUs behind each node generation"]}
ASSUMPTIONS = [
    "inode numbers may be recycled by later nodes, but never the number the library's currently open handle was opened on (indistinguishable for any stat-based detection)",
    "node replacement happens between library calls, with one exception: the fault 'after_open' unplugs the node right after an open() of the library succeeded (before its next system call). A node *replaced* between the library's stat() and its ioctl is a race no user-space code can close and is not generated",
    "the application may name the device by a persistent symbolic link (/dev/disk/by-id/...): the node 'at the path' is the node the link leads to now; a device may come back under another kernel name with the link re-pointed (and the old name taken by another device)",
    "a handle whose close() raised and stayed open at OS level is exempt from the exactly-one-release count",
    "when closing the stale handle fails, the exception may or may not propagate; what is demanded is that a fresh handle on the current inode was opened during that call and that no command was sent through the stale one",
]
AUX_NAME = "event histories (sequence of op kinds incl. fault flavours, without ids)"
REQUIRED_PROBES = ["inode_number_reused", "reattach_same_device", "raw_sense_execute", "cmd_after_replug", "close_fails", "replug_and_close_fails", "unplug_detected", "with_exit_exception", "detect_off_kept_handle", "iscsi_disconnect_once",
                   "symlink_path", "via_init_device", "link_retargeted", "reopen_refused_once", "vanished_mid_call",
                   "second_user", "replug_in_flight", "iscsi_dropped_after_close", "facade_attached_midway", "facade_attach_failed", "changed_before_with"]

PATH = "/dev/sg3"
PATH2 = "/dev/sg4"
LINK = "/dev/disk/by-id/scsi-verif0"      # a persistent name: a symbolic link to whatever node the device currently has


def setup(repo):
    install()
    import_pyscsi(repo)


def gen_ops(rng, n):
    ops = []
    pending = False
    for _ in range(n):
        r = rng.random()
        if pending and r < 0.6:
            op = {"op": "execute", "cc": rng.random() < 0.15, "raw": rng.random() < 0.25}
            pending = False
            r2 = rng.random()
            if r2 < 0.12:
                op["open_errno"] = rng.choice([13, 13, 16, 24])     # the re-open is refused once (EACCES while udev fixes permissions, EBUSY, EMFILE)
                if rng.random() < 0.4:
                    op["open_refusals"] = rng.choice([2, 3, 5])      # ... or several times in a row
                pending = True
            elif r2 < 0.2:
                op["vanish_after_open"] = True                       # the node is unplugged again between the library's open() and its next system call
                pending = True
        elif r < 0.3:
            op = {"op": "execute", "cc": rng.random() < 0.2, "raw": rng.random() < 0.2}
        elif r < 0.55:
            op = {"op": "replug"}
            if rng.random() < 0.3:
                op["type"] = rng.choice([0, 5, 8, 3])
            if rng.random() < 0.25:
                op["reuse_ino"] = rng.choice([0, 0, 1, 2])     # the new node gets the inode number of an earlier generation (tmpfs/devtmpfs recycle numbers)
            pending = True
        elif r < 0.6:
            # the device comes back under another kernel name; a persistent link (if the application uses one) is re-pointed
            op = {"op": "retarget", "decoy": rng.random() < 0.4}
            pending = True
        elif r < 0.63:
            op = {"op": "unplug"}
            pending = True
        elif r < 0.7:
            op = {"op": "plug"}
            pending = True
        elif r < 0.88:
            op = {"op": "arm_close_fails", "errno": rng.choice([5, 9, 28]), "releases": rng.random() < 0.7}
        elif r < 0.95:
            op = {"op": "close"}
        elif r < 0.975:
            op = {"op": "execute", "cc": False, "via_facade": True}
        else:
            op = {"op": "reattach_same"}       # scsi(dev) with the device the facade already holds (re-runs type detection)
        if op["op"] == "execute" and rng.random() < 0.08:
            op["ioctl_errno"] = rng.choice([19, 6, 5])       # the binding's ioctl fails (ENODEV / ENXIO / EIO)
            if rng.random() < 0.4:
                op["replug_in_flight"] = True                 # ... because the device was pulled and came back while the command was in flight
        r3 = rng.random()
        if r3 < 0.04:
            # the application builds a facade on the device it already holds; the attach INQUIRY may meet a CHECK CONDITION
            op = {"op": "attach_facade", "cc": rng.random() < 0.6}
        elif r3 < 0.08:
            # a second user in the same process opens the same node, uses it and closes it, while the first is still open
            op = {"op": "second_user", "then_close": rng.random() < 0.8}
        # simulated time that passes before this event (tight polling loops up to long idle periods)
        op["dt"] = rng.choice([0, 0, 0.0005, 0.005, 0.05, 1, 60, 86400])
        ops.append(op)
    return ops


def generate(rng, idx, tier):
    cfg = {"transport": "sgio" if rng.random() < 0.85 else "iscsi",
           "detect": rng.random() < 0.7, "readwrite": rng.random() < 0.5,
           "mode": rng.choice(["plain", "plain", "with_device", "with_facade", "nested_with"]),
           "exit": rng.choice(["normal", "normal", "exception"]),
           "exit_exc": rng.choice(["custom", "custom", "OSError", "RuntimeError", "KeyError", "FileNotFoundError", "NotImplementedError", "KeyboardInterrupt"]),
           "close_at_end": rng.random() < 0.6,
           "path": rng.choice(["node", "node", "node", "symlink"]), "via": rng.choice(["SCSIDevice", "SCSIDevice", "init_device"]),
           # what happens to the node between building the device object and entering the with block
           "before_with": rng.choice([None, None, None, "unplug", "replug"])}
    n = rng.choice([2, 3, 4, 5, 6, 8, 12, 25])
    return {"property": ID, "config": cfg, "ops": gen_ops(rng, n)}


class _Leave(Exception):
    pass


def leave_exception(cfg):
    kind = cfg.get("exit_exc", "custom")
    return {"custom": _Leave, "OSError": OSError, "RuntimeError": RuntimeError, "KeyError": KeyError, "FileNotFoundError": FileNotFoundError,
            "NotImplementedError": NotImplementedError, "KeyboardInterrupt": KeyboardInterrupt}[kind]("leaving the with block (%s)" % kind)


def execute(prog):
    WORLD.reset()
    SCSI, SCSIDevice, ISCSIDevice = worlds.lib()
    from pyscsi.pyscsi.scsi_cdb_testunitready import TestUnitReady
    cfg = prog["config"]
    V = []
    summary = []
    gen = [0]

    def new_lu(t=0):
        gen[0] += 1
        return T.make_lu(t, 0, gen[0])

    sgio_mode_early = cfg["transport"] != "iscsi"
    DEV = LINK if cfg.get("path") == "symlink" else PATH      # the path the application names
    loc = {"real": PATH}                                        # where the node currently lives
    if cfg["transport"] == "iscsi":
        lu = new_lu()
        kind, dev = worlds.outcome_of(lambda: worlds.open_device("iscsi", lu))
    else:
        WORLD.plug(PATH, new_lu())
        if DEV == LINK:
            WORLD.symlink(LINK, PATH)
            WORLD.probe("symlink_path")
        if cfg.get("via") == "init_device" and cfg["detect"]:
            from pyscsi.utils import init_device
            WORLD.probe("via_init_device")
            make_device = lambda: init_device(DEV, cfg["readwrite"])
        else:
            make_device = lambda: SCSIDevice(DEV, readwrite=cfg["readwrite"], detect_replugged=cfg["detect"])
        kind, dev = worlds.outcome_of(make_device)
    if kind == "exc":
        raise RuntimeError("harness: device construction failed: %r" % (dev,))
    inos = [WORLD.lookup(DEV).ino] if sgio_mode_early else []
    st = {"closed": False, "post_replug": False, "first_hid": 0, "cmds_after_event": 0, "explicit_close": False, "facade": None, "extra_devs": []}
    sgio_mode = cfg["transport"] == "sgio"

    def check_opens():
        # read-write: a mode that allows reading and writing ('+'); read-only: no '+', 'w', 'a' or 'x'.  The exact spelling is the library's business
        for e in WORLD.events:
            if e["kind"] == "vfs.open" and "hid" in e and not e.get("_judged"):
                e["_judged"] = True
                m = str(e["mode"])
                ok = ("+" in m) if cfg["readwrite"] else not any(c in m for c in "+wax")
                if not ok:
                    V.append(dict(oracle="C15.open-mode", where="sgio", detail="rw=%d" % cfg["readwrite"],
                                  expected="device opened %s" % ("for reading and writing" if cfg["readwrite"] else "read-only"), actual="mode %r" % m))

    def do_execute(op, scsi):
        WORLD.armed.clear()
        if op.get("ioctl_errno"):
            WORLD.arm({"kind": "ioctl_error", "errno": op["ioctl_errno"]})
        elif op.get("cc"):
            WORLD.arm({"kind": "status", "byte": 2, "sense": S.fixed(6, 0x29, 0).hex()})
        if op.get("open_errno") and sgio_mode:
            WORLD.arm({"kind": "open_fails", "errno": op["open_errno"], "count": op.get("open_refusals", 1)})
        if op.get("replug_in_flight") and op.get("ioctl_errno") and sgio_mode and cfg["detect"]:
            WORLD.flags["replug_when_ioctl_fails"] = True
        if op.get("vanish_after_open") and sgio_mode:
            WORLD.arm({"kind": "after_open"})
        fired0 = dict(WORLD.fired)
        mark_ev = len(WORLD.events)
        node = WORLD.lookup(DEV) if sgio_mode else None
        if scsi is not None and op.get("via_facade"):
            kind, val = worlds.outcome_of(lambda: scsi.testunitready())
        else:
            cmd = TestUnitReady(dev.opcodes.TEST_UNIT_READY)
            if op.get("raw"):
                WORLD.probe("raw_sense_execute")
                kind, val = worlds.outcome_of(lambda: dev.execute(cmd, en_raw_sense=True))
            else:
                kind, val = worlds.outcome_of(lambda: dev.execute(cmd))
        evs = WORLD.events[mark_ev:]
        if not sgio_mode:
            return kind, val
        WORLD.flags.pop("replug_when_ioctl_fails", None)
        ioctl_failed = WORLD.fired.get("ioctl_error", 0) > fired0.get("ioctl_error", 0)
        if ioctl_failed and kind == "ok":
            V.append(dict(oracle="C15.ioctl-error-swallowed", where="detect=%d" % cfg["detect"], detail="errno=%s" % op.get("ioctl_errno"),
                          expected="the OS error of the failed ioctl reaches the caller (the command was not executed)", actual="execute returned normally"))
        if ioctl_failed and sgio_mode and WORLD.lookup(DEV) is not node:
            st["post_replug"] = True          # the node was replaced (or went away) while the command was in flight
            if WORLD.lookup(DEV) is not None:
                inos.append(WORLD.lookup(DEV).ino)
            WORLD.probe("replug_in_flight")
            return kind, val
        open_failed = WORLD.fired.get("open_fails", 0) > fired0.get("open_fails", 0)
        vanished = WORLD.fired.get("after_open", 0) > fired0.get("after_open", 0)
        cmds = [e for e in evs if e["kind"] == "sgio.cmd"]
        opens = [e for e in evs if e["kind"] == "vfs.open"]
        closes_failed = [e for e in evs if e["kind"] == "vfs.close" and e.get("error")]
        where = "detect=%d" % cfg["detect"]
        if st["closed"]:
            # using a device after close(): nothing is promised except that no command goes out on a released handle
            for e in cmds:
                h = WORLD.handles[e["hid"]]
                if h.closed:
                    V.append(dict(oracle="C15.command-on-closed-handle", where=where, detail="after-close",
                                  expected="no command through a released handle", actual="sgio.execute on handle #%d" % e["hid"]))
            return kind, val
        if cfg["detect"]:
            if node is None:
                # vanished node: an error, and nothing sent
                if kind == "ok" or cmds:
                    V.append(dict(oracle="C15.vanished-node-used", where=where, detail="unplug",
                                  expected="execute raises and sends nothing (node vanished)",
                                  actual="%s, %d command(s) sent" % ("returned" if kind == "ok" else type(val).__name__, len(cmds))))
                else:
                    WORLD.probe("unplug_detected")
                return kind, val
            if vanished:
                # the node went away between the library's open() and its next system call: the call may fail or may use the handle it
                # just opened; it must not fall back to an older handle, and whatever it opened is still released at close (end of run)
                WORLD.probe("vanished_mid_call")
                newest = max([e["hid"] for e in opens if "hid" in e] or [-1])
                for e in cmds:
                    if e["hid"] != newest:
                        V.append(dict(oracle="C15.stale-handle", where=where, detail="vanish-after-open",
                                      expected="no command through a handle older than the one just opened (#%d)" % newest, actual="handle #%d" % e["hid"]))
                st["post_replug"] = True
                return kind, val
            for e in cmds:
                if WORLD.handles[e["hid"]].node is not node:
                    V.append(dict(oracle="C15.wrong-node", where=where, detail="cmd",
                                  expected="command to the node now at %s (inode %s)" % (DEV, node.ino),
                                  actual="handle #%d is open on %s (inode %s)" % (e["hid"], WORLD.handles[e["hid"]].name, WORLD.handles[e["hid"]].ino)))
                if not e.get("same_node", e.get("handle_ino") == e.get("path_ino")):
                    V.append(dict(oracle="C15.stale-handle", where=where, detail="cmd",
                                  expected="command through a handle on the node now at the path (inode %s)" % e.get("path_ino"),
                                  actual="handle #%d opened on an earlier node (inode %s)" % (e["hid"], e.get("handle_ino"))))
                # superseded handles have had close attempted
                for h in WORLD.handles[:e["hid"]]:
                    if h.close_calls == 0 and not getattr(h, "other_user", False):
                        V.append(dict(oracle="C15.superseded-not-closed", where=where, detail="cmd",
                                      expected="superseded handle #%d closed before the command is sent" % h.hid, actual="close never attempted"))
            if st["post_replug"] and open_failed and not [e for e in opens if "hid" in e]:
                # the OS refused the re-open: the call fails (or not), nothing went through the stale handle (judged above), and the
                # replacement is still pending for the next call
                WORLD.probe("reopen_refused_once")
                if cmds:
                    V.append(dict(oracle="C15.stale-handle", where=where, detail="reopen-refused",
                                  expected="no command: the node was replaced and the re-open failed", actual="%d command(s) sent" % len(cmds)))
            elif st["post_replug"]:
                # a replacement was pending when this call started: when it ends (however it ends) the device holds an open handle on
                # the node now at the path - opened in this call or earlier (an implementation may look at the node in __enter__ or
                # when a facade attaches), and any handle this call opened last is on that node
                mine = [h for h in WORLD.handles if not h.closed and not getattr(h, "other_user", False) and h.node is node]
                if not mine or (opens and opens[-1].get("ino") != node.ino):
                    V.append(dict(oracle="C15.no-fresh-handle", where=where, detail="close-failed" if closes_failed else "replug",
                                  expected="an open handle on the node now at %s (inode %d) after this execute" % (DEV, node.ino),
                                  actual="%d open(s) in this call: %s; open handles of the device: %s; outcome %s" % (
                                      len(opens), [e.get("ino") for e in opens],
                                      [h.ino for h in WORLD.handles if not h.closed and not getattr(h, "other_user", False)],
                                      "ok" if kind == "ok" else type(val).__name__)))
                if closes_failed:
                    WORLD.probe("replug_and_close_fails")
                if cmds:
                    WORLD.probe("cmd_after_replug")
                st["post_replug"] = False
                if not closes_failed and not open_failed and not op.get("cc") and not op.get("ioctl_errno") and kind == "exc" and not isinstance(val, KeyboardInterrupt):
                    V.append(dict(oracle="C15.replug-breaks-command", where=where, detail=type(val).__name__,
                                  expected="command executes through the fresh handle", actual=repr(val)[:100]))
            else:
                if opens:
                    # re-opening although the node was not replaced is wasteful but not forbidden by the property: counted, not judged
                    WORLD.probe("reopen_without_replug")
                if open_failed:
                    # an implementation that re-opens more often than it must met the refused open: the failure is the OS's
                    WORLD.probe("voluntary_reopen_refused")
                elif not op.get("cc") and not op.get("ioctl_errno") and kind == "exc" and not closes_failed:
                    V.append(dict(oracle="C15.command-fails", where=where, detail=type(val).__name__,
                                  expected="command executes (node unchanged)", actual=repr(val)[:100]))
        else:
            if opens:
                V.append(dict(oracle="C15.reopen-with-detection-off", where=where, detail="open",
                              expected="the original handle is kept", actual="%d open(s)" % len(opens)))
            for e in cmds:
                if e["hid"] != st["first_hid"]:
                    V.append(dict(oracle="C15.handle-changed-with-detection-off", where=where, detail="cmd",
                                  expected="original handle #%d" % st["first_hid"], actual="handle #%d" % e["hid"]))
                elif st["post_replug"]:
                    WORLD.probe("detect_off_kept_handle")
            if len(cmds) != 1 and not st["closed"] and not op.get("ioctl_errno"):
                V.append(dict(oracle="C15.command-not-sent", where=where, detail="count=%d" % len(cmds),
                              expected="one command through the original handle", actual="%d" % len(cmds)))
        if op.get("cc") and cmds and kind == "ok":
            pass  # C07's business
        return kind, val

    def run_ops(scsi):
        for i, op in enumerate(prog["ops"]):
            name = op["op"]
            if st["closed"] and name != "close":
                # using a device after close() is caller misuse; the property promises nothing about it
                summary.append("-")
                continue
            WORLD.ev("op", i=i, **op)
            if op.get("dt"):
                WORLD.advance(op["dt"])
            if name == "execute":
                kind, val = do_execute(op, scsi if scsi is not None else st.get("facade"))
                summary.append("x:%s" % ("ok" if kind == "ok" else type(val).__name__))
            elif name == "attach_facade":
                WORLD.armed.clear()
                if op.get("cc") and sgio_mode:
                    WORLD.arm({"kind": "status", "byte": 2, "sense": S.fixed(6, 0x29, 0).hex()})
                node0 = WORLD.lookup(DEV) if sgio_mode else None
                mark_ev = len(WORLD.events)
                k0, v0 = worlds.outcome_of(lambda: SCSI(dev, blocksize=512))
                if k0 == "ok":
                    st["facade"] = v0
                WORLD.probe("facade_attached_midway" if k0 == "ok" else "facade_attach_failed")
                if sgio_mode and cfg["detect"] and st["post_replug"] and node0 is not None:
                    # the attach INQUIRY went through the replug path
                    opened = [e for e in WORLD.events[mark_ev:] if e["kind"] == "vfs.open" and "hid" in e and e.get("ino") == node0.ino]
                    if opened:
                        st["post_replug"] = False
                # whatever happened to the INQUIRY, the device object stays the caller's: it is not closed behind their back
                if sgio_mode and not st["closed"]:
                    closes = [e for e in WORLD.events[mark_ev:] if e["kind"] == "vfs.close"]
                    live = [h for h in WORLD.handles if not h.closed and not getattr(h, "other_user", False)]
                    if not live and node0 is not None and not [e for e in closes if e.get("error")]:
                        V.append(dict(oracle="C15.closed-behind-caller", where="attach/detect=%d" % cfg["detect"], detail="cc=%d" % bool(op.get("cc")),
                                      expected="building a facade on a device leaves the device open (the caller owns it)",
                                      actual="no open handle left after SCSI(device) %s" % ("failed with %s" % type(v0).__name__ if k0 == "exc" else "returned")))
                summary.append("facade:%s" % ("ok" if k0 == "ok" else type(v0).__name__))
            elif name == "second_user" and sgio_mode:
                if WORLD.lookup(DEV) is None:
                    summary.append("-")
                    continue
                WORLD.armed.clear()
                mark_h = len(WORLD.handles)
                k2, d2 = worlds.outcome_of(make_device)
                for h in WORLD.handles[mark_h:]:
                    h.other_user = True          # not a handle of the device object under observation
                if k2 == "ok":
                    cmd2 = TestUnitReady(d2.opcodes.TEST_UNIT_READY)
                    mark_ev = len(WORLD.events)
                    k3, v3 = worlds.outcome_of(lambda: d2.execute(cmd2))
                    node2 = WORLD.lookup(DEV)
                    for e in [e for e in WORLD.events[mark_ev:] if e["kind"] == "sgio.cmd" and "hid" in e]:
                        if WORLD.handles[e["hid"]].node is not node2:
                            V.append(dict(oracle="C15.wrong-node", where="second-user", detail="cmd",
                                          expected="the second user's command goes to the node now at %s" % DEV, actual="handle #%d" % e["hid"]))
                    if op.get("then_close"):
                        worlds.outcome_of(lambda: d2.close())
                    else:
                        st["extra_devs"].append(d2)
                    if d2 is dev:
                        WORLD.probe("second_user_got_same_object")
                    else:
                        for h in WORLD.handles[mark_h:]:
                            h.other_user = True      # also what the second user opened while executing (it may re-open as it likes)
                    WORLD.probe("second_user")
                summary.append("second:%s" % k2)
            elif name == "replug" and sgio_mode:
                ino = None
                if "reuse_ino" in op and len(inos) > op["reuse_ino"]:
                    cand = inos[op["reuse_ino"]]
                    cur_node = WORLD.lookup(DEV)
                    live = [h for h in WORLD.handles if not h.closed]
                    # a node that comes back with the very inode number the library's handle was opened on cannot be told apart by any
                    # stat-based detection; that case is not generated (ASSUMPTIONS)
                    if (cur_node is None or cur_node.ino != cand) and not any(h.ino == cand for h in live):
                        ino = cand
                        WORLD.probe("inode_number_reused")
                node = WORLD.replug(loc["real"], new_lu(op.get("type", 0)), ino)
                inos.append(node.ino)
                st["post_replug"] = True
                summary.append("replug")
            elif name == "retarget" and sgio_mode:
                if DEV == LINK:
                    old = loc["real"]
                    if old in WORLD.nodes:
                        WORLD.unplug(old)
                    loc["real"] = PATH2 if old == PATH else PATH
                    if loc["real"] in WORLD.nodes:
                        WORLD.unplug(loc["real"])          # a decoy that lived there goes away
                    node = WORLD.plug(loc["real"], new_lu())
                    WORLD.symlink(LINK, loc["real"])
                    if op.get("decoy"):
                        WORLD.plug(old, new_lu(3))           # the old kernel name is taken by an unrelated device
                    WORLD.probe("link_retargeted")
                else:
                    node = WORLD.replug(loc["real"], new_lu())
                inos.append(node.ino)
                st["post_replug"] = True
                summary.append("retarget")
            elif name == "unplug" and sgio_mode:
                if loc["real"] in WORLD.nodes:
                    WORLD.unplug(loc["real"])
                st["post_replug"] = True
                summary.append("unplug")
            elif name == "plug" and sgio_mode:
                if loc["real"] not in WORLD.nodes:
                    WORLD.plug(loc["real"], new_lu())
                    st["post_replug"] = True
                summary.append("plug")
            elif name == "reattach_same":
                if scsi is not None:
                    WORLD.armed.clear()
                    k0, v0 = worlds.outcome_of(lambda: scsi(dev))
                    WORLD.probe("reattach_same_device")
                    if sgio_mode and cfg["detect"] and st["post_replug"] and WORLD.lookup(DEV) is not None:
                        st["post_replug"] = False       # the attach INQUIRY already went through the replug path
                    summary.append("reattach:%s" % ("ok" if k0 == "ok" else type(v0).__name__))
            elif name == "arm_close_fails" and sgio_mode:
                live = [h for h in WORLD.handles if not h.closed and not getattr(h, "other_user", False)]
                if live:
                    live[-1].close_fault = {"errno": op["errno"], "releases": op["releases"]}
                    if not op["releases"]:
                        live[-1].exempt = True
                summary.append("arm")
            elif name == "close":
                kind, val = worlds.outcome_of(lambda: dev.close())
                st["closed"] = True
                st["explicit_close"] = True
                summary.append("close:%s" % ("ok" if kind == "ok" else type(val).__name__))
            check_opens()

    mode = cfg["mode"]
    left = None
    if mode == "plain":
        run_ops(None)
        if cfg["close_at_end"]:
            kind, val = worlds.outcome_of(lambda: dev.close())
            st["closed"] = True
            st["explicit_close"] = True
    else:
        if cfg.get("before_with") and sgio_mode:
            # the world moves between building the device object and entering the with block
            if cfg["before_with"] == "unplug":
                WORLD.unplug(loc["real"])
            else:
                inos.append(WORLD.replug(loc["real"], new_lu()).ino)
            st["post_replug"] = True
            WORLD.probe("changed_before_with")

        def facade_built(mark_ev):
            # the facade's INQUIRY was the first command after whatever happened before the block: it went through the replug path
            if sgio_mode and cfg["detect"] and st["post_replug"]:
                node_ = WORLD.lookup(DEV)
                if node_ is not None and [e for e in WORLD.events[mark_ev:] if e["kind"] == "vfs.open" and "hid" in e and e.get("ino") == node_.ino]:
                    st["post_replug"] = False

        def body():
            if mode == "with_device":
                with dev:
                    run_ops(None)
                    if cfg["exit"] == "exception":
                        WORLD.probe("with_exit_exception")
                        raise leave_exception(cfg)
            elif mode == "nested_with":
                # `with device` around `with SCSI(device)`: both exits close; the OS handle must still be released exactly once
                with dev:
                    mark_ev = len(WORLD.events)
                    facade = SCSI(dev, blocksize=512)
                    facade_built(mark_ev)
                    with facade as s:
                        run_ops(s)
                        if cfg["exit"] == "exception":
                            WORLD.probe("with_exit_exception")
                            raise leave_exception(cfg)
            else:
                mark_ev = len(WORLD.events)
                try:
                    facade = SCSI(dev, blocksize=512)
                except BaseException:
                    dev.close()          # the facade could not be built: the caller, who made the device, closes it
                    raise
                facade_built(mark_ev)
                with facade as s:
                    run_ops(s)
                    if cfg["exit"] == "exception":
                        WORLD.probe("with_exit_exception")
                        raise leave_exception(cfg)
        try:
            kind, val = worlds.outcome_of(body)
        except KeyboardInterrupt as e:     # generated on purpose (exit_exc); outcome_of lets it through
            kind, val = "exc", e
        left = "ok" if kind == "ok" else type(val).__name__
        st["closed"] = True
        st["explicit_close"] = True
        if kind == "exc" and cfg["exit"] == "exception" and not isinstance(val, (_Leave, OSError, type(leave_exception(cfg)))):
            V.append(dict(oracle="C15.with-exit", where=mode, detail=type(val).__name__,
                          expected="the with block re-raises the body's exception (or the close error)", actual=repr(val)[:100]))
    for d2 in st["extra_devs"]:
        if d2 is not dev:
            worlds.outcome_of(lambda: d2.close())
    # release accounting
    if st["explicit_close"]:
        if sgio_mode:
            for h in WORLD.handles:
                if getattr(h, "exempt", False):
                    continue
                if h.os_releases != 1:
                    V.append(dict(oracle="C15.release-count", where="%s/detect=%d" % (mode, cfg["detect"]), detail="releases=%d" % h.os_releases,
                                  expected="handle #%d released exactly once at OS level after close/with" % h.hid,
                                  actual="%d releases, %d close calls" % (h.os_releases, h.close_calls)))
        else:
            # a second, short-lived device object: opened, closed, dropped - its session was released by close(), and only then
            import gc
            n0 = len(WORLD.iscsi_contexts)
            k7, d7 = worlds.outcome_of(lambda: worlds.open_device("iscsi", lu))
            if k7 == "ok":
                worlds.outcome_of(lambda: d7.close())
                del d7
                gc.collect()
                extra = [c for c in WORLD.iscsi_contexts[n0:] if c.disconnects != 1]
                if extra:
                    V.append(dict(oracle="C15.iscsi-disconnect", where="dropped-after-close", detail="n=%d" % extra[0].disconnects,
                                  expected="one disconnect for a device that was closed and then dropped", actual="%d disconnects" % extra[0].disconnects))
                else:
                    WORLD.probe("iscsi_dropped_after_close")
            del WORLD.iscsi_contexts[n0:]
            n = sum(c.disconnects for c in WORLD.iscsi_contexts)
            closes = sum(1 for o in prog["ops"] if o["op"] == "close") + (2 if mode == "nested_with" else 1 if (mode != "plain" or cfg["close_at_end"]) else 0)
            if n < 1 or (closes == 1 and n != 1):
                V.append(dict(oracle="C15.iscsi-disconnect", where=mode, detail="n=%d" % n,
                              expected="disconnect exactly once for one close", actual="%d disconnect(s) for %d close call(s)" % (n, closes)))
            elif closes == 1:
                WORLD.probe("iscsi_disconnect_once")
    out, sigs = [], set()
    for v in V:
        k = (v["oracle"], v["where"], v["detail"])
        if k not in sigs:
            sigs.add(k)
            out.append(v)
    stats = {"events": len(WORLD.events)}
    for k, v in WORLD.fired.items():
        stats["fired." + k] = v
    for k, v in WORLD.probes.items():
        stats["probe." + k] = v
    nontrivial = WORLD.probes.get("cmd_after_replug", 0) + WORLD.probes.get("unplug_detected", 0) + WORLD.probes.get("detect_off_kept_handle", 0) > 0
    import hashlib as _h
    aux = _h.sha256(repr([prog["config"]["detect"], prog["config"]["mode"], prog["config"]["exit"]] + summary).encode()).hexdigest()
    return {"digest": WORLD.digest(), "violations": out, "nontrivial": nontrivial, "stats": stats, "aux": aux,
            "summary": summary + ([left] if left else []), "events_tail": [{k: v for k, v in e.items() if k != "_judged"} for e in WORLD.events[-8:]]}


def simplify(prog):
    cfg = prog["config"]
    if cfg["mode"] != "plain":
        c = copy.deepcopy(prog)
        c["config"]["mode"] = "plain"
        c["config"]["close_at_end"] = True
        yield c
    if cfg["exit"] != "normal":
        c = copy.deepcopy(prog)
        c["config"]["exit"] = "normal"
        yield c
    if cfg["readwrite"]:
        c = copy.deepcopy(prog)
        c["config"]["readwrite"] = False
        yield c
    for i, op in enumerate(prog["ops"]):
        if op.get("cc"):
            c = copy.deepcopy(prog)
            c["ops"][i]["cc"] = False
            yield c
        if "type" in op:
            c = copy.deepcopy(prog)
            c["ops"][i].pop("type")
            yield c
        if op.get("via_facade"):
            c = copy.deepcopy(prog)
            c["ops"][i].pop("via_facade")
            yield c
