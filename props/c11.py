"""C11 - decoding device data always terminates, whatever the bytes.

The hostile byte strings are corrupted device responses and sense payloads:
fault kinds `corrupt_datain` and `sense_payload` applied to what a live
simulated target returns, biased to the embedded length / count fields.
Oracle: every facade call and every direct decode returns or raises within
20000 + 400*len(buffer) source-line steps of library code (deterministic step
meter), and without exhausting memory."""

import copy
import os
import random

from sim import facade as F
from sim import steps
from sim import worlds
from sim.seams import WORLD, install, import_pyscsi
from t10 import sense as S

ID = "C11"
LEVEL = "exploration"
COUNTS = {"quick": 6000, "thorough": 300000}
ENUMERATED_NOTE = "sense sweep under the step meter: 256 ASC x 256 ASCQ for fixed format (quick) and for all four formats (thorough)"
RULE = ("seeded runs of 1-6 data-in facade calls (every data-in command, every PERSISTENT RESERVE IN service action, every VPD page, "
        "mode pages, READ CD layouts, READ ELEMENT STATUS with and without volume tags; random allocation lengths incl. 0) against a "
        "live simulated target whose well-formed response is corrupted inside the command: embedded length/count fields set to "
        "0/1/max/true+-1, inconsistent combinations, byte flips, truncation, all-00/all-FF, garbage, plus hostile sense payloads; the "
        "corrupted bytes are also decoded directly at every truncation; 8% of the calls meet a target that keeps answering the same way "
        "(UNIT ATTENTION / NOT READY / BUSY for ever, one operation code unsupported) and 5% of the runs poll one command 40 times with "
        "ever different answers and measure what library allocation sites retain. Non-trivial = a corruption fault fired and the decoder ran on "
        "it; distinct = event digest")
COMPONENTS = {"real": ["every unmarshall_datain", "SCSICommand.unmarshall", "SCSICheckCondition", "facade", "SCSIDevice/ISCSIDevice"],
              "stubs": ["sgio module", "iscsi module", "virtual /dev"],
              "simulated_peers": ["t10.targets Block/Changer/Mmc LUs producing the well-formed base responses"]}
ASSUMPTIONS = [
    "memory: tracemalloc peak per decode must stay below 16 MiB + 4 KiB per buffer byte (deterministic: allocation sizes are a function of the input)",
    "'work' = source-line events inside /repo/pyscsi counted by sys.settrace; budget 20000 + 400*len(buffer): READ ELEMENT STATUS needs ~15 steps/byte on well-formed data but up to ~100 steps/byte when a corrupted descriptor length of 1 makes it decode one descriptor per byte; 150/byte was tried and false-alarmed on a slower-but-linear rewrite",
    "what a decoder returns for corrupt data is not judged (any value or any exception is fine)",
    "buffers up to 16 KiB (the largest default allocation length)",
    "a call that sends more than 64 commands to a target that keeps answering the same is counted as not terminating (today every facade call sends one)",
    "retained memory: bytes allocated at source lines of /repo/pyscsi and still alive (tracemalloc snapshot after gc.collect()) may grow by at most 256 KiB over 40 polls with different answers",
]
ALSO_OPTIMIZED = True      # repeated under `python -O`: a termination guard written as an assert vanishes there
REQUIRED_PROBES = ["facade_without_blocksize", "corrupt_datain", "sense_payload", "zero_length_field", "direct_decode", "decoder_raised", "res_page", "sticky_target_answer", "retention_measured"]

MAX_COMMANDS_PER_CALL = 64       # no facade call of the library needs more than one command today; retries must be bounded
RETENTION_POLLS, RETENTION_BOUND = 40, 256 << 10
BUDGET_BASE, BUDGET_PER_BYTE = 20000, 400
GUARD_PER_BYTE = 40      # allocation-traced runs are ~10x slower: they stop at this smaller step count WITHOUT judging termination
MEM_BASE, MEM_PER_BYTE = 16 << 20, 4096       # generous: honest decoders stay below 2 MiB for 16 KiB buffers
PREFIX = "/repo/pyscsi/"

# method -> (LU kind, offsets of embedded length/count fields (offset, width) in this simulator's well-formed responses)
DATAIN = {
    "inquiry": (F.BLOCK, [(4, 1), (2, 2), (7, 1), (3, 1)]),
    "modesense6": (F.BLOCK, [(0, 1), (3, 1), (5, 1), (13, 1)]),
    "modesense10": (F.BLOCK, [(0, 2), (6, 2), (9, 1), (17, 1)]),
    "readcapacity10": (F.BLOCK, []),
    "readcapacity16": (F.BLOCK, []),
    "getlbastatus": (F.BLOCK, [(0, 4)]),
    "reportluns": (F.BLOCK, [(0, 4)]),
    "reporttargetportgroups": (F.BLOCK, [(0, 4), (11, 1), (4, 1)]),
    "reportpriority": (F.BLOCK, [(0, 4), (10, 2)]),
    "persistentreservein": (F.BLOCK, [(4, 4), (28, 4), (34, 2), (0, 2)]),
    "readelementstatus": (F.CHANGER, [(5, 3), (10, 2), (13, 3), (2, 2), (9, 1)]),
    "readdiscinformation": (F.MMC, [(0, 2), (2, 1)]),
    "readcd": (F.MMC, []),
    "read10": (F.BLOCK, []),
}
BY_KIND = {}
for _m, (_k, _f) in DATAIN.items():
    BY_KIND.setdefault(_k, []).append(_m)


def setup(repo):
    install()
    import_pyscsi(repo)
    global PREFIX
    PREFIX = os.path.join(os.path.realpath(repo), "pyscsi") + os.sep


# VPD pages with descriptor lists: offsets of the first descriptor's type / length bytes in this simulator's well-formed pages
VPD_FIELDS = {0x83: [(5, 1), (7, 1), (5, 1), (3, 1), (2, 2), (4, 1)], 0x86: [(3, 1), (2, 2)], 0xB0: [(3, 1), (2, 2)], 0x89: [(3, 1), (2, 2)]}


def gen_corruption(rng, method, page=None):
    fields = DATAIN[method][1]
    if page in VPD_FIELDS and rng.random() < 0.7:
        fields = VPD_FIELDS[page]
    r = rng.random()
    if r < 0.45 and fields:
        n = rng.choice([1, 1, 1, 2, 3])
        sets = []
        for _ in range(n):
            off, w = rng.choice(fields)
            val = rng.choice([0, 0, 1, (1 << (8 * w)) - 1, 2, 3, 4, 7, 8, 12, 16, 24, 52, 0x80, rng.randrange(1 << (8 * w))])
            sets.append([off, w, val])
        return {"kind": "corrupt_datain", "mode": "fields", "fields": sets}
    if r < 0.6:
        off = rng.randrange(0, 64)
        w = rng.choice([1, 2, 3, 4])
        return {"kind": "corrupt_datain", "mode": "fields", "fields": [[off, w, rng.choice([0, 1, (1 << (8 * w)) - 1, rng.randrange(1 << (8 * w))])]]}
    if r < 0.7:
        return {"kind": "corrupt_datain", "mode": "set", "bytes": [[rng.randrange(0, 128), rng.randrange(256)] for _ in range(rng.randrange(1, 6))]}
    if r < 0.78:
        return {"kind": "corrupt_datain", "mode": "truncate", "n": rng.choice([0, 1, 2, 3, 4, 5, 7, 8, 9, 12, 16, 20, 24, 31])}
    if r < 0.88:
        return {"kind": "corrupt_datain", "mode": "fill", "byte": rng.choice([0x00, 0xFF, 0xFF, 0x01, 0x80, 0x40, rng.randrange(256)])}
    if r < 0.94:
        return {"kind": "corrupt_datain", "mode": "replace", "data": bytes(rng.randrange(256) for _ in range(rng.choice([1, 8, 16, 40, 96, 300]))).hex()}
    return {"kind": "corrupt_datain", "mode": "tail", "data": bytes(rng.randrange(256) for _ in range(rng.choice([1, 4, 16, 64]))).hex()}


def gen_call(rng, method, cfg):
    call = F.gen_call(rng, method, cfg)
    if method == "inquiry" and rng.random() < 0.5:
        call["kw"]["evpd"] = 1
        call["kw"]["page_code"] = rng.choice([0x83, 0x83, 0x00, 0x80, 0xB0, 0x89, 0xB2, 0x86])
        call["kw"].setdefault("alloclen", rng.choice([96, 255, 1024]))
    if method == "readelementstatus":
        call["args"] = [0, rng.choice([3, 10, 100])]
        call["kw"].pop("alloclen", None)
        if rng.random() < 0.3:
            call["kw"]["alloclen"] = rng.choice([8, 16, 40, 200, 4096])
    if method == "persistentreservein":
        call["args"] = [rng.choice([0, 1, 2, 3, 3])]
    return call


def gen_quirk(rng):
    """a target that keeps answering in one way, for as long as the initiator keeps asking (sticky: not consumed by one command)"""
    r = rng.random()
    if r < 0.4:
        return {"kind": "status", "byte": 2, "sense": S.fixed(6, *rng.choice([(0x29, 0x00), (0x2A, 0x01), (0x3F, 0x0E)])).hex(), "sticky": True}     # UNIT ATTENTION for ever
    if r < 0.7:
        # one operation code is not supported (e.g. SERVICE ACTION IN(16) behind an old bridge): ILLEGAL REQUEST / INVALID COMMAND OPERATION CODE
        return {"kind": "status", "byte": 2, "sense": S.fixed(5, 0x20, 0x00).hex(), "sticky": True, "opcode": rng.choice([0x9E, 0x9E, 0x25, 0xA3, 0x5E, 0x12])}
    if r < 0.85:
        return {"kind": "status", "byte": rng.choice([0x08, 0x28]), "sticky": True}       # BUSY / TASK SET FULL for ever
    return {"kind": "status", "byte": 2, "sense": S.fixed(2, 0x04, 0x01).hex(), "sticky": True}       # NOT READY, becoming ready - for ever


def generate(rng, idx, tier):
    kind = rng.choice([F.BLOCK, F.BLOCK, F.CHANGER, F.MMC])
    cfg = F.default_cfg(kind)
    if kind == F.BLOCK and rng.random() < 0.25:
        cfg["nblocks"] = rng.choice([1 << 33, (1 << 32) + 5, (1 << 64) - 1])     # READ CAPACITY(10) answers FFFFFFFFh
    ops = []
    for _ in range(rng.choice([1, 2, 3, 4, 6])):
        m = rng.choice(BY_KIND[kind])
        op = gen_call(rng, m, cfg)
        r = rng.random()
        if r < 0.08:
            op["fault"] = gen_quirk(rng)
            op["direct_cuts"] = []
            ops.append(op)
            continue
        if r < 0.75:
            op["fault"] = gen_corruption(rng, m, op["kw"].get("page_code") if op["kw"].get("evpd") else None)
        elif r < 0.9:
            from props.c08 import gen_payload
            op["fault"] = {"kind": "sense_payload", "sense": gen_payload(rng).hex()}
        else:
            op["fault"] = None
        op["direct_cuts"] = sorted(set(rng.choice([0, 1, 2, 3, 4, 7, 8, 9, 11, 12, 16, 17, 24, 40, 64]) for _ in range(rng.randrange(0, 4))))
        ops.append(op)
    no_bs = rng.random() < 0.15
    if no_bs and kind == F.BLOCK:
        # an application that learns the geometry from the device first: READ CAPACITY (answer corrupted), then a read
        rc = rng.choice(["readcapacity10", "readcapacity16"])
        op1 = gen_call(rng, rc, cfg)
        off = 4 if rc.endswith("10") else 8
        op1["fault"] = rng.choice([{"kind": "corrupt_datain", "mode": "fields", "fields": [[off, 4, rng.choice([0xFFFFFFF0, 0x7FFFFFFF, 0x10000000, 0xFFFFFFFF])]]},
                                   {"kind": "corrupt_datain", "mode": "fill", "byte": 0xFF}])
        op1["direct_cuts"] = []
        op2 = gen_call(rng, "read10", cfg)
        op2["fault"], op2["direct_cuts"] = None, []
        ops = [op1, op2] + ops[:2]
    mem = rng.random() < 0.1
    return {"property": ID, "config": {"lu": cfg, "transport": rng.choice(["sgio", "iscsi"]), "mem": mem,
                                       # in allocation-traced runs: poll one command 40 times with ever different answers and see what the library keeps
                                       "retention": mem and rng.random() < 0.5,
                                       "retention_failing": rng.random() < 0.5,      # ... the polled command fails (CHECK CONDITION with ever different sense)
                                       # the application gave the facade no block size (its default): what a device claims must not become an allocation
                                       "no_blocksize": no_bs}, "ops": ops}


def enumerated_count(tier):
    return 256 * (4 if tier == "thorough" else 1)


def enumerated(k, tier):
    """sense-code sweep under the step meter: all 256 ASCQ for one (format, ASC)"""
    rc = [0x70, 0x72, 0x71, 0x73][k // 256]
    return {"property": ID, "config": {"lu": F.default_cfg(F.BLOCK), "transport": "iscsi" if k & 1 else "sgio"},
            "sense_sweep": {"rc": rc, "key": [5, 2, 6, 3][k // 256], "asc": k % 256}, "ops": []}


def decode_kwargs(method, args, kw):
    if method == "inquiry":
        return {"evpd": kw.get("evpd", 0)}
    if method == "readcd":
        return {"lba": args[0], "tl": args[1], "est": kw.get("est", 0), "dap": kw.get("dap", 0), "mcsb": kw.get("mcsb", 0),
                "c2ei": kw.get("c2ei", 0), "scsb": kw.get("scsb", 0)}
    return {}


def execute(prog):
    WORLD.reset()
    SCSI, SCSIDevice, ISCSIDevice = worlds.lib()
    cfg = prog["config"]["lu"]
    lu = worlds.make_lu(cfg, ident=5)
    dev = worlds.open_device(prog["config"]["transport"], lu)
    if prog["config"].get("no_blocksize"):
        scsi = SCSI(dev)
        WORLD.probe("facade_without_blocksize")
    else:
        scsi = SCSI(dev, blocksize=cfg["bs"])
    if cfg["kind"] == F.BLOCK:
        scsi.persistentreserveout(0, service_action_reservation_key=0xABCDEF0123)
        scsi.persistentreserveout(1, reservation_key=0xABCDEF0123, pr_type=3)
    meter = steps.Meter(PREFIX)
    import tracemalloc
    mem_on = bool(prog["config"].get("mem"))      # allocation tracing costs ~10x: done in a tenth of the runs
    if mem_on:
        tracemalloc.start()
        WORLD.probe("allocation_traced_run")
    peak_max = [0]
    V = []

    def mem_check(label, nbytes, where_):
        """'allocate without bound': peak of traced allocations during one decode, against a bound linear in the buffer size"""
        if not mem_on:
            return
        cur, peak = tracemalloc.get_traced_memory()
        tracemalloc.reset_peak()
        peak_max[0] = max(peak_max[0], peak)
        bound = MEM_BASE + MEM_PER_BYTE * nbytes
        if peak > bound:
            V.append(dict(oracle="C11.memory", where=where_, detail=label,
                          expected="at most %d bytes allocated while decoding a %d-byte buffer" % (bound, nbytes), actual="peak %d bytes" % peak))
    handed = []
    orig_execute = dev.execute

    def tapped(cmd, *a, **k):
        handed.append(cmd)
        n = len(cmd.datain) if cmd.datain is not None else 0
        meter.budget = BUDGET_BASE + (GUARD_PER_BYTE if mem_on else BUDGET_PER_BYTE) * n
        return orig_execute(cmd, *a, **k)
    dev.execute = tapped
    summary = []
    where = prog["config"]["transport"]
    if prog.get("sense_sweep"):
        sw = prog["sense_sweep"]
        for ascq in range(256):
            sense = (S.fixed if sw["rc"] in (0x70, 0x71) else S.descriptor)(sw["key"], sw["asc"], ascq, response_code=sw["rc"])
            WORLD.armed.clear()
            WORLD.arm({"kind": "sense_payload", "sense": sense.hex()})
            kind, val, n = meter.run(lambda: scsi.testunitready(), BUDGET_BASE + BUDGET_PER_BYTE * 252)
            if kind == "exc":
                k2, v2, n2 = meter.run(lambda: str(val), BUDGET_BASE + BUDGET_PER_BYTE * 252)
                kind = "budget" if k2 == "budget" else kind
            if kind == "budget":
                V.append(dict(oracle="C11.no-termination", where=where, detail="sense",
                              expected="constructing and printing the CheckCondition for sense %s within budget" % sense.hex(),
                              actual="budget exhausted at %s" % meter.exceeded_at))
                break
        summary.append("sense-sweep %02x/%02x" % (sw["rc"], sw["asc"]))
    for i, op in enumerate(prog["ops"]):
        m = op["m"]
        WORLD.ev("op", i=i, m=m)
        WORLD.armed.clear()
        del handed[:]
        fault = op.get("fault")
        if fault:
            WORLD.arm(fault)
        args, kw = F.real_args(op["args"]), F.real_args(op["kw"])
        fired0 = dict(WORLD.fired)
        kind, val, n = meter.run(lambda: getattr(scsi, m)(*args, **kw), BUDGET_BASE + (GUARD_PER_BYTE if mem_on else BUDGET_PER_BYTE) * 16384)
        mem_check(m, len(handed[0].datain) if handed and handed[0].datain is not None else 16384, where)
        if fault and fault.get("sticky"):
            WORLD.probe("sticky_target_answer")
            if len(handed) > MAX_COMMANDS_PER_CALL and kind != "budget":
                V.append(dict(oracle="C11.no-termination", where=where, detail=m + "/commands",
                              expected="a call gives up after a bounded number of commands (at most %d) when the target keeps answering the same" % MAX_COMMANDS_PER_CALL,
                              actual="%d commands sent in one call" % len(handed)))
        fmode = (fault or {}).get("mode", (fault or {}).get("kind", "none"))
        buflen = len(handed[0].datain) if handed and handed[0].datain is not None else 0
        if m == "readelementstatus" and handed:
            WORLD.probe("res_page")
        if kind == "budget" and mem_on:
            WORLD.probe("guard_stopped_traced_run")      # not judged here: the untraced runs (90%) judge termination with the full budget
        elif kind == "budget":
            V.append(dict(oracle="C11.no-termination", where=where, detail=m,
                          expected="%s returns or raises within %d line steps for a %d-byte buffer" % (m, meter.budget, buflen),
                          actual="still running after %d steps at %s" % (n, meter.exceeded_at)))
        elif kind == "exc" and isinstance(val, MemoryError):
            V.append(dict(oracle="C11.memory", where=where, detail=m, expected="bounded allocation", actual="MemoryError"))
        elif kind == "exc":
            WORLD.probe("decoder_raised")
            if hasattr(val, "asc") or type(val).__name__ == "CheckCondition":
                k2, v2, n2 = meter.run(lambda: str(val), BUDGET_BASE + BUDGET_PER_BYTE * 252)
                if k2 == "budget":
                    V.append(dict(oracle="C11.no-termination", where=where, detail="str(CheckCondition)",
                                  expected="str(exc) within budget", actual="still running after %d steps" % n2))
        out = kind if kind != "exc" else type(val).__name__
        # direct decodes of the corrupted bytes at several truncations
        if handed and fault and fault.get("kind") == "corrupt_datain" and hasattr(type(handed[0]), "unmarshall_datain"):
            cls = type(handed[0])
            final = bytes(handed[0].datain)
            dk = decode_kwargs(m, args, kw)
            for cut in op.get("direct_cuts", []):
                buf = bytearray(final[:cut])
                WORLD.probe("direct_decode")
                use = dk if (cut % 2 == 0 or not dk) else {}      # also with the decoder's own default arguments
                k3, v3, n3 = meter.run(lambda: cls.unmarshall_datain(buf, **use), BUDGET_BASE + (GUARD_PER_BYTE if mem_on else BUDGET_PER_BYTE) * len(buf))
                mem_check(cls.__name__, max(len(buf), 1), "direct")
                if k3 == "budget" and mem_on:
                    WORLD.probe("guard_stopped_traced_run")
                elif k3 == "budget":
                    V.append(dict(oracle="C11.no-termination", where="direct", detail=cls.__name__,
                                  expected="%s.unmarshall_datain returns or raises within %d steps for %d bytes" % (cls.__name__, meter.budget, len(buf)),
                                  actual="still running after %d steps" % n3))
                elif k3 == "exc" and isinstance(v3, MemoryError):
                    V.append(dict(oracle="C11.memory", where="direct", detail=cls.__name__, expected="bounded allocation", actual="MemoryError"))
        WORLD.ev("op.end", i=i, out=out, steps=n)
        summary.append("%s:%s:%d" % (m, out, n))
        if any(v["oracle"] == "C11.no-termination" for v in V):
            break       # every further non-terminating decode would cost a whole budget again
    out_v, sigs = [], set()
    for v in V:
        k = (v["oracle"], v["where"], v["detail"])
        if k not in sigs:
            sigs.add(k)
            out_v.append(v)
    if mem_on and prog["config"].get("retention") and prog["ops"] and not V:
        # "allocate without bound" over a sequence: an application polls one command; every answer differs; what do library
        # allocation sites still hold afterwards?  (allocations made in library source files only; harness and event log excluded)
        import gc
        op = prog["ops"][0]
        m = op["m"]
        args, kw = F.real_args(op["args"]), F.real_args(op["kw"])

        def lib_bytes():
            gc.collect()
            snap = tracemalloc.take_snapshot().filter_traces([tracemalloc.Filter(True, PREFIX + "*")])
            return sum(st.size for st in snap.statistics("filename"))

        def poll(k):
            WORLD.armed.clear()
            if prog["config"].get("retention_failing"):
                WORLD.arm({"kind": "sense_payload", "sense": S.fixed(3, 0x11, k & 0xFF, info=k * 7919, length=18 + (k % 3) * 8).hex()})
            else:
                WORLD.arm({"kind": "corrupt_datain", "mode": "set", "bytes": [[8 + (k % 5), (k * 37 + 11) & 0xFF], [3, k & 0xFF], [14, (k >> 3) & 0xFF]]})
            del handed[:]
            del WORLD.deliveries[:]      # the harness's own references to the library's buffers
            del lu.log[:]
            meter.run(lambda: getattr(scsi, m)(*args, **kw), BUDGET_BASE + GUARD_PER_BYTE * 16384)
        for k in range(6):
            poll(k)
        before = lib_bytes()
        for k in range(6, 6 + RETENTION_POLLS):
            poll(k)
        grown = lib_bytes() - before
        WORLD.probe("retention_measured")
        WORLD.ev("retention", m=m, grown_kib=grown >> 10 if grown > RETENTION_BOUND else 0)
        if grown > RETENTION_BOUND:
            V.append(dict(oracle="C11.memory", where=where, detail=m + "/retained",
                          expected="memory held by library code does not grow with the number of (different) answers decoded: at most %d KiB after %d polls" % (RETENTION_BOUND >> 10, RETENTION_POLLS),
                          actual="%d KiB more held after %d further polls of %s" % (grown >> 10, RETENTION_POLLS, m)))
        out_v = V if not out_v else out_v + [v for v in V if v not in out_v]
    if mem_on:
        tracemalloc.stop()
    stats = {"events": len(WORLD.events), "steps": meter.total, "peak_alloc_kib_sum": peak_max[0] >> 10}
    for k, v in WORLD.fired.items():
        stats["fired." + k] = v
    for k, v in WORLD.probes.items():
        stats["probe." + k] = v
    return {"digest": WORLD.digest(), "violations": out_v, "nontrivial": bool(WORLD.fired.get("corrupt_datain") or WORLD.fired.get("sense_payload")),
            "stats": stats, "summary": summary, "events_tail": WORLD.events[-4:]}


MINIMISE_BUDGET = 60
MAX_MINIMISED = 4
ALLOC_KW = {"readdiscinformation": "alloc_len"}


def presimplify(prog):
    """small buffers first: a candidate that still does not terminate costs its whole step budget, which is linear in the buffer"""
    for size in (64, 256, 1024):
        c = copy.deepcopy(prog)
        changed = False
        for op in c["ops"]:
            if op["m"] in ("readcapacity10", "readcapacity16", "readcd", "read10"):
                continue
            name = ALLOC_KW.get(op["m"], "alloclen")
            if op["kw"].get(name) != size:
                op["kw"][name] = size
                changed = True
        if changed:
            yield c


def simplify(prog):
    for i, op in enumerate(prog["ops"]):
        if op.get("direct_cuts"):
            c = copy.deepcopy(prog)
            c["ops"][i]["direct_cuts"] = []
            yield c
        f = op.get("fault")
        if f and f.get("mode") == "fields" and len(f["fields"]) > 1:
            for j in range(len(f["fields"])):
                c = copy.deepcopy(prog)
                del c["ops"][i]["fault"]["fields"][j]
                yield c
        if op.get("kw"):
            for k in sorted(op["kw"]):
                c = copy.deepcopy(prog)
                c["ops"][i]["kw"].pop(k)
                yield c
    if prog["config"]["transport"] != "sgio":
        c = copy.deepcopy(prog)
        c["config"]["transport"] = "sgio"
        yield c
