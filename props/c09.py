"""C09 - command objects are isolated from one another, in any order or
interleaving.

Programs: 1-3 caller threads, each with its own list of constructor / encode /
decode / data-in / facade operations on its own objects.  The seeded scheduler
(sim/sched.py) decides which thread runs every source line inside the library.
Oracle: every operation's outcome equals the outcome of the same operation
executed *alone* (reference run in a separate pristine process: the thread's
ops sequentially, each static-method op immediately after a throw-away
instance of the same class), and objects a thread holds are byte-identical at
the end to what they were when built."""

import copy
import hashlib
import importlib
import json
import os
import random

from sim import core
from sim import facade as F
from sim import sched
from sim import worlds
from sim.seams import WORLD, _norm, install, import_pyscsi
from t10 import cdb as C
from t10 import resp as R

ID = "C09"
LEVEL = "exploration"
COUNTS = {"quick": 4000, "thorough": 400000}
RULE = ("seeded programs of 1-3 caller threads x up to 8 operations (construct any of 42 command classes, Class.unmarshall_cdb / "
        "marshall_cdb on own and foreign CDBs, unmarshall_datain / marshall round trips, repeated marshalling, facade calls on a "
        "thread-private simulated device, cmd.unmarshall() of the own data-in buffer, failing constructions; 10% of the programs are "
        "contention programs: 2-3 threads building only the parameter-list classes with differently shaped arguments) executed under a seeded scheduler (random(p), pct(k<=3), "
        "boundary, optional bytecode granularity) that pre-empts at source-line/call/return events inside pyscsi; enumerated: "
        "ordered pairs of classes 'build A, build B, decode/encode with A' (all 1764 in thorough, 252 in quick); every single "
        "pre-emption point of a shared-facade call; every (thorough) / every third (quick) pre-emption point of every class's "
        "constructor with a second thread building the same class in the window. Non-trivial = "
        "multi-threaded run with at least one pre-emption inside library code, or a sequential run with two different classes; "
        "distinct = event digest (includes the switch sequence at file:line)")
ENUMERATED_NOTE = "(1) ordered pairs (A, B) of the 42 command classes, sequential: build A, build B, decode own CDB with A, re-encode, recheck A; (2) two threads on one shared facade+device, one call each: every single pre-emption point of the first call (700 step positions) x 3 (quick) / 8 (thorough) call pairs x 2 transports, the second thread running its whole call inside the window; (3) for each of the 42 classes: two threads construct the same class with differently shaped arguments, the first pre-empted at every (thorough) / every third (quick) step of its constructor (17.9k / 6k windows), the second building, encoding and decoding inside the window; (4) for the five parameter-list constructors (EXTENDED COPY SPC-4/5, PERSISTENT RESERVE OUT, MODE SELECT 6/10): the same windows with the second thread decoding / re-encoding INQUIRY page 83h, mode pages and READ FULL STATUS data and building an INQUIRY (classes whose tables those constructors share)"
COMPONENTS = {"real": ["all command classes", "SCSICommand", "converter", "SCSI facade + SCSIDevice for facade ops"],
              "stubs": ["sgio module", "virtual /dev", "threading.Lock/RLock replaced by cooperative locks (library uses none today)"],
              "simulated_peers": ["t10.targets.BlockLU per thread", "baton thread scheduler deciding every interleaving"]}
ASSUMPTIONS = [
    "pre-emption granularity is source line / call / return inside /repo/pyscsi (bytecode granularity in a minority of runs); at most 3 threads",
    "'alone' for a static encode/decode call means: immediately after constructing an instance of the same class (the only situation the existing tests exercise)",
    "threads only touch their own objects; shared module-level tables are read-only for callers",
]
MINIMISE_SCHEDULE = True
AUX_NAME = "interleavings (sequence of thread switches with the file:line they happened at)"
REQUIRED_PROBES = ["shared_device_threads", "preempt_in_library", "switch_in_SCSICommand_init", "three_threads", "facade_in_thread", "failed_construction"]

# class key -> (module, class name, opcode set, opcode attr or ('get', suffix), needs blocksize, facade generator key)
M = "pyscsi.pyscsi."
CLASSES = {
    "ATAPassThrough12": (M + "scsi_cdb_atapassthrough12", "ATAPassThrough12", "sbc", "ATA_PASS_THROUGH_12", False, "atapassthrough12"),
    "ATAPassThrough16": (M + "scsi_cdb_atapassthrough16", "ATAPassThrough16", "sbc", "ATA_PASS_THROUGH_16", False, "atapassthrough16"),
    "ExchangeMedium": (M + "scsi_cdb_exchangemedium", "ExchangeMedium", "smc", "EXCHANGE_MEDIUM", False, "exchangemedium"),
    "ExtendedCopy4": (M + "scsi_cdb_extended_copy_spc4", "ExtendedCopy", "spc", "EXTENDED_COPY", False, "extendedcopy4"),
    "ExtendedCopy5": (M + "scsi_cdb_extended_copy_spc5", "ExtendedCopy", "spc", "EXTENDED_COPY", False, "extendedcopy5"),
    "GetLBAStatus": (M + "scsi_cdb_getlbastatus", "GetLBAStatus", "sbc", ("get", "9E"), False, "getlbastatus"),
    "InitializeElementStatus": (M + "scsi_cdb_initelementstatus", "InitializeElementStatus", "smc", "INITIALIZE_ELEMENT_STATUS", False, "initializeelementstatus"),
    "InitializeElementStatusWithRange": (M + "scsi_cdb_initelementstatuswithrange", "InitializeElementStatusWithRange", "smc", "INITIALIZE_ELEMENT_STATUS_WITH_RANGE", False, "initializeelementstatuswithrange"),
    "Inquiry": (M + "scsi_cdb_inquiry", "Inquiry", "spc", "INQUIRY", False, "inquiry"),
    "ModeSense6": (M + "scsi_cdb_modesense6", "ModeSense6", "spc", "MODE_SENSE_6", False, "modesense6"),
    "ModeSelect6": (M + "scsi_cdb_modesense6", "ModeSelect6", "spc", "MODE_SELECT_6", False, "modeselect6"),
    "ModeSense10": (M + "scsi_cdb_modesense10", "ModeSense10", "spc", "MODE_SENSE_10", False, "modesense10"),
    "ModeSelect10": (M + "scsi_cdb_modesense10", "ModeSelect10", "spc", "MODE_SELECT_10", False, "modeselect10"),
    "MoveMedium": (M + "scsi_cdb_movemedium", "MoveMedium", "smc", "MOVE_MEDIUM", False, "movemedium"),
    "OpenCloseImportExportElement": (M + "scsi_cdb_openclose_exportimport_element", "OpenCloseImportExportElement", "smc", "OPEN_CLOSE_IMPORT_EXPORT_ELEMENT", False, "opencloseimportexportelement"),
    "PersistentReserveIn": (M + "scsi_cdb_persistentreservein", "PersistentReserveIn", "spc", "PERSISTENT_RESERVE_IN", False, "persistentreservein"),
    "PersistentReserveInReadKeys": (M + "scsi_cdb_persistentreservein", "PersistentReserveInReadKeys", "spc", "PERSISTENT_RESERVE_IN", False, "prin_sub"),
    "PersistentReserveInReadReservation": (M + "scsi_cdb_persistentreservein", "PersistentReserveInReadReservation", "spc", "PERSISTENT_RESERVE_IN", False, "prin_sub"),
    "PersistentReserveInReportCapabilities": (M + "scsi_cdb_persistentreservein", "PersistentReserveInReportCapabilities", "spc", "PERSISTENT_RESERVE_IN", False, "prin_sub"),
    "PersistentReserveInReadFullStatus": (M + "scsi_cdb_persistentreservein", "PersistentReserveInReadFullStatus", "spc", "PERSISTENT_RESERVE_IN", False, "prin_sub"),
    "PersistentReserveOut": (M + "scsi_cdb_persistentreserveout", "PersistentReserveOut", "spc", "PERSISTENT_RESERVE_OUT", False, "persistentreserveout"),
    "PositionToElement": (M + "scsi_cdb_positiontoelement", "PositionToElement", "smc", "POSITION_TO_ELEMENT", False, "positiontoelement"),
    "PreventAllowMediumRemoval": (M + "scsi_cdb_preventallow_mediumremoval", "PreventAllowMediumRemoval", "spc", "PREVENT_ALLOW_MEDIUM_REMOVAL", False, "preventallowmediumremoval"),
    "Read10": (M + "scsi_cdb_read10", "Read10", "sbc", "READ_10", True, "read10"),
    "Read12": (M + "scsi_cdb_read12", "Read12", "sbc", "READ_12", True, "read12"),
    "Read16": (M + "scsi_cdb_read16", "Read16", "sbc", "READ_16", True, "read16"),
    "ReadCapacity10": (M + "scsi_cdb_readcapacity10", "ReadCapacity10", "sbc", "READ_CAPACITY_10", False, "readcapacity10"),
    "ReadCapacity16": (M + "scsi_cdb_readcapacity16", "ReadCapacity16", "sbc", ("get", "9E"), False, "readcapacity16"),
    "ReadCd": (M + "scsi_cdb_readcd", "ReadCd", "mmc", "READ_CD", False, "readcd"),
    "ReadDiscInformation": (M + "scsi_cdb_readdiscinformation", "ReadDiscInformation", "mmc", "READ_DISC_INFORMATION", False, "readdiscinformation"),
    "ReadElementStatus": (M + "scsi_cdb_readelementstatus", "ReadElementStatus", "smc", "READ_ELEMENT_STATUS", False, "readelementstatus"),
    "ReportLuns": (M + "scsi_cdb_report_luns", "ReportLuns", "spc", "REPORT_LUNS", False, "reportluns"),
    "ReportPriority": (M + "scsi_cdb_report_priority", "ReportPriority", "spc", ("get", "A3"), False, "reportpriority"),
    "ReportTargetPortGroups": (M + "scsi_cdb_report_target_port_groups", "ReportTargetPortGroups", "spc", ("get", "A3"), False, "reporttargetportgroups"),
    "SynchronizeCache10": (M + "scsi_cdb_synchronize_cache10", "SynchronizeCache10", "sbc", "SYNCHRONIZE_CACHE_10", False, "synchronizecache10"),
    "SynchronizeCache16": (M + "scsi_cdb_synchronize_cache16", "SynchronizeCache16", "sbc", "SYNCHRONIZE_CACHE_16", False, "synchronizecache16"),
    "TestUnitReady": (M + "scsi_cdb_testunitready", "TestUnitReady", "spc", "TEST_UNIT_READY", False, "testunitready"),
    "Write10": (M + "scsi_cdb_write10", "Write10", "sbc", "WRITE_10", True, "write10"),
    "Write12": (M + "scsi_cdb_write12", "Write12", "sbc", "WRITE_12", True, "write12"),
    "Write16": (M + "scsi_cdb_write16", "Write16", "sbc", "WRITE_16", True, "write16"),
    "WriteSame10": (M + "scsi_cdb_writesame10", "WriteSame10", "sbc", "WRITE_SAME_10", True, "writesame10"),
    "WriteSame16": (M + "scsi_cdb_writesame16", "WriteSame16", "sbc", "WRITE_SAME_16", True, "writesame16"),
}
assert len(CLASSES) == 42
NAMES = sorted(CLASSES)

# T10 opcode of each class (for generating foreign CDBs of the right length), from t10/cdb.py
T10_OF = {
    "ATAPassThrough12": 0xA1, "ATAPassThrough16": 0x85, "ExchangeMedium": 0xA6, "ExtendedCopy4": 0x83, "ExtendedCopy5": 0x83,
    "GetLBAStatus": 0x9E, "InitializeElementStatus": 0x07, "InitializeElementStatusWithRange": 0x37, "Inquiry": 0x12,
    "ModeSense6": 0x1A, "ModeSelect6": 0x15, "ModeSense10": 0x5A, "ModeSelect10": 0x55, "MoveMedium": 0xA5,
    "OpenCloseImportExportElement": 0x1B, "PersistentReserveIn": 0x5E, "PersistentReserveInReadKeys": 0x5E,
    "PersistentReserveInReadReservation": 0x5E, "PersistentReserveInReportCapabilities": 0x5E,
    "PersistentReserveInReadFullStatus": 0x5E, "PersistentReserveOut": 0x5F, "PositionToElement": 0x2B,
    "PreventAllowMediumRemoval": 0x1E, "Read10": 0x28, "Read12": 0xA8, "Read16": 0x88, "ReadCapacity10": 0x25,
    "ReadCapacity16": 0x9E, "ReadCd": 0xBE, "ReadDiscInformation": 0x51, "ReadElementStatus": 0xB8, "ReportLuns": 0xA0,
    "ReportPriority": 0xA3, "ReportTargetPortGroups": 0xA3, "SynchronizeCache10": 0x35, "SynchronizeCache16": 0x91,
    "TestUnitReady": 0x00, "Write10": 0x2A, "Write12": 0xAA, "Write16": 0x8A, "WriteSame10": 0x41, "WriteSame16": 0x93,
}

def _mode_sense10_answer(rng):
    long_ = rng.randrange(2)
    if long_:
        bd = rng.choice([b"", R.be(rng.randrange(1 << 40), 8) + bytes(4) + R.be(4096, 4)])
    else:
        bd = rng.choice([b"", R.be(rng.randrange(1 << 24), 4) + R.be(512, 4)])
    return R.mode_sense10([R.disconnect_reconnect_page(max_burst=rng.randrange(1 << 16))], longlba=long_, block_descriptors=bd)


DATAIN = {
    "Inquiry": lambda rng: (R.std_inquiry(rng.randrange(32), vendor="V%d" % rng.randrange(99)), {}) if rng.random() < 0.4 else
    (R.vpd_device_id(rng.randrange(32), [R.designation_descriptor(1, 0, 3, R.naa6(rng.randrange(1 << 24), rng.randrange(1 << 16), rng.randrange(1 << 64))),
                                         R.designation_descriptor(1, 1, 4, R.be(rng.randrange(1 << 16), 4), piv=1, proto=rng.randrange(7)),
                                         R.designation_descriptor(1, 2, 5, R.be(rng.randrange(1 << 16), 4), piv=1, proto=5)][:rng.randrange(1, 4)]), {"evpd": 1}),
    "ReadCapacity10": lambda rng: (R.read_capacity10(rng.randrange(1 << 32), rng.choice([512, 4096])), {}),
    "ReadCapacity16": lambda rng: (R.read_capacity16(rng.randrange(1 << 64), 512, lbpme=1), {}),
    "GetLBAStatus": lambda rng: (R.get_lba_status([(rng.randrange(1000), rng.randrange(1, 99), rng.randrange(3)) for _ in range(rng.randrange(4))]), {}),
    "ReportLuns": lambda rng: (R.report_luns([rng.randrange(1 << 64) for _ in range(rng.randrange(5))]), {}),
    # with and without block descriptors (8-byte short form; 16-byte form when MODE SENSE(10) reports LONGLBA=1)
    "ModeSense6": lambda rng: (R.mode_sense6([R.control_page(swp=rng.randrange(2), busy_timeout=rng.randrange(1 << 16))],
                                             block_descriptors=rng.choice([b"", R.be(rng.randrange(1 << 24), 4) + R.be(512, 4)])), {}),
    "ModeSense10": lambda rng: (_mode_sense10_answer(rng), {}),
    "ReadElementStatus": lambda rng: (R.read_element_status(0, 2, [R.element_status_page(2, [R.element_descriptor(0x100 + i, full=rng.randrange(2)) for i in range(2)])]), {}),
    "ReportTargetPortGroups": lambda rng: (R.rtpg([dict(aas=rng.randrange(4), tpg=rng.randrange(99), ports=[1, 2])]), {}),
    "PersistentReserveInReadKeys": lambda rng: (R.pr_read_keys(rng.randrange(99), [rng.randrange(1 << 64) for _ in range(rng.randrange(4))]), {}),
    "PersistentReserveInReadReservation": lambda rng: (R.pr_read_reservation(rng.randrange(99), (rng.randrange(1 << 64), 0, rng.choice([1, 3, 5]))), {}),
    "PersistentReserveInReportCapabilities": lambda rng: (R.pr_report_capabilities(), {}),
    "ReadDiscInformation": lambda rng: (R.disc_information_standard(sessions=rng.randrange(300)), {}),
    "PersistentReserveInReadFullStatus": lambda rng: (R.pr_read_full_status(rng.randrange(99), [
        dict(key=rng.randrange(1 << 64), holder=rng.randrange(2), scope=0, type=rng.choice([1, 3, 5]), rtpi=rng.randrange(9),
             tid=rng.choice([R.transport_id_iscsi("iqn.2026-10.verif:n%d" % rng.randrange(9)), R.transport_id_sas(R.be(rng.randrange(1 << 64), 8)),
                             R.transport_id_fc(R.be(rng.randrange(1 << 64), 8))])) for _ in range(rng.randrange(1, 4))]), {}),
}
ROUNDTRIP = ["Inquiry", "ReadCapacity10", "ReadCapacity16", "GetLBAStatus", "ReportLuns", "ModeSense6", "ModeSense10", "ReadElementStatus"]


def setup(repo):
    sched.install_coop_locks()
    install()
    import_pyscsi(repo)
    global PREFIX
    PREFIX = os.path.join(os.path.realpath(repo), "pyscsi") + os.sep


PREFIX = "/repo/pyscsi/"
CFG = F.default_cfg(F.BLOCK)


def gen_ctor(rng, name):
    key = CLASSES[name][5]
    if key == "prin_sub":
        kw = {}
        if rng.random() < 0.5:
            kw["alloclen"] = rng.choice([8, 24, 1024])
        return {"cls": name, "args": [], "kw": kw}
    kind = F.METHODS[key][0][0]
    cfg = F.default_cfg(kind)
    call = F.gen_call(rng, key, cfg)
    if name == "PersistentReserveIn":
        call["kw"].pop("alloclen", None)
    return {"cls": name, "args": call["args"], "kw": call["kw"]}


def gen_thread_ops(rng, n, classes, allow_facade):
    ops = []
    slots = []
    facade = allow_facade and rng.random() < 0.25
    if facade:
        ops.append({"op": "attach"})
    for _ in range(n):
        r = rng.random()
        if facade and r < 0.5:
            m = rng.choice(["read10", "write16", "inquiry", "readcapacity16", "testunitready", "reportluns", "modesense6", "synchronizecache10", "getlbastatus"])
            ops.append(dict(op="facade", **F.gen_call(rng, m, CFG)))
            continue
        if not slots or r < 0.45:
            name = rng.choice(classes)
            op = dict(op="construct", **gen_ctor(rng, name))
            if rng.random() < 0.06 and CLASSES[name][4]:
                op["blocksize"] = 0          # a construction that is refused
            if name in ("ExtendedCopy4", "ExtendedCopy5") and rng.random() < 0.2:
                op["junk_seg_key"] = rng.choice(["bogus", "blocks", "x"])      # ... refused because of a misspelt descriptor key
            slots.append(name)
            ops.append(op)
        elif r < 0.47 and slots:
            # a second command of the same class with equal arguments (each command is its own object, with its own bytes)
            k = rng.randrange(len(slots))
            earlier = [o for o in ops if o["op"] == "construct"][k]
            ops.append(copy.deepcopy(earlier))
            slots.append(slots[k])
        elif r < 0.52:
            # equal inputs (the very same argument objects) twice -> equal bytes
            name = rng.choice(classes) if rng.random() < 0.6 else rng.choice(["ExtendedCopy4", "ExtendedCopy5", "PersistentReserveOut", "ModeSelect6"])
            ops.append(dict(op="construct_twice", **gen_ctor(rng, name)))
        elif r < 0.57:
            # another class decodes the bytes of a CDB this thread built (e.g. classes sharing opcode 9Eh/A3h/5Eh)
            ops.append({"op": "decode_foreign", "slot": rng.randrange(len(slots)), "cls": rng.choice(classes + ["ReadCapacity16", "GetLBAStatus", "ReportPriority", "ReportTargetPortGroups"]),
                        "tw": None})
            ops[-1]["tw"] = gen_ctor(rng, ops[-1]["cls"])
        elif r < 0.575:
            ops.append({"op": "scribble", "slot": rng.randrange(len(slots)), "n": rng.choice([1, 4, 36])})
            if rng.random() < 0.5:
                ops[-1]["cdb"] = rng.choice([0x04, 0x40, 0xC0])       # ... and patches a byte of its own CDB in place (e.g. the CONTROL byte)
        elif r < 0.585:
            ops.append({"op": "rebuild", "slot": rng.randrange(len(slots))})
        elif r < 0.6:
            ops.append({"op": "decode_own", "slot": rng.randrange(len(slots))})
        elif r < 0.64:
            # the owner lets the device fill its command's data-in buffer and decodes it through the instance (cmd.unmarshall())
            ops.append({"op": "unmarshall_own", "slot": rng.randrange(len(slots)), "seed": rng.randrange(1 << 20)})
        elif r < 0.72:
            ops.append({"op": "encode_own", "slot": rng.randrange(len(slots))})
        elif r < 0.8:
            ops.append({"op": "recheck", "slot": rng.randrange(len(slots))})
        elif r < 0.88:
            name = rng.choice(classes)
            ln = C.cdb_len(T10_OF[name])
            cdb = bytes([T10_OF[name]]) + bytes(rng.randrange(256) for _ in range(ln - 1))
            ops.append({"op": "decode", "cls": name, "cdb": cdb.hex(), "tw": gen_ctor(rng, name)})
        elif r < 0.95:
            name = rng.choice(sorted(DATAIN))
            buf, kw = DATAIN[name](rng)
            ops.append({"op": rng.choice(["unmarshall_datain", "roundtrip_datain"]) if name in ROUNDTRIP else "unmarshall_datain",
                        "cls": name, "buf": bytes(buf).hex(), "dkw": kw, "tw": gen_ctor(rng, name)})
            if rng.random() < 0.5:
                # the next answer of the same kind (an application polling): decoded on its own, whatever was decoded before
                buf2, kw2 = DATAIN[name](rng)
                ops.append({"op": "unmarshall_datain", "cls": name, "buf": bytes(buf2).hex(), "dkw": kw2, "tw": gen_ctor(rng, name)})
        else:
            ops.append({"op": "repeat_encode", "slot": rng.randrange(len(slots))})
    return ops


def gen_strategy(rng):
    r = rng.random()
    if r < 0.45:
        s = {"kind": "random", "p": rng.choice([0.002, 0.01, 0.03, 0.08, 0.2])}
    elif r < 0.75:
        s = {"kind": "pct", "k": rng.choice([1, 2, 3]), "horizon": rng.choice([60, 200, 600, 1500])}
    else:
        s = {"kind": "boundary", "p": rng.choice([0.05, 0.2, 0.5])}
    s["p_op"] = rng.choice([0.0, 0.2, 0.5])
    if rng.random() < 0.12:
        s["opcode"] = True
    return s


SHARED_CALLS = ["inquiry", "inquiry", "testunitready", "readcapacity10", "readcapacity16", "reportluns", "modesense6", "modesense10",
                "read10", "read16", "getlbastatus", "reporttargetportgroups"]
SHARED_FAULTS = [None, None, None,
                 {"kind": "status", "byte": 2, "sense": "70000600000000000a00000000290000000000"},
                 {"kind": "status", "byte": 2, "sense": "7200044400000000"},
                 {"kind": "status", "byte": 2, "sense": "70000200000000000a00000000040100000000"},
                 {"kind": "status", "byte": 8}, {"kind": "status", "byte": 0x18}, {"kind": "status", "byte": 0x28}]


def gen_shared(rng, idx):
    """two or three caller threads share ONE facade object and ONE device (state-independent commands only, so that every
    command's outcome is defined by itself), each command with its own injected completion status"""
    nt = rng.choice([2, 2, 3])
    ops = []
    for t in range(nt):
        for _ in range(rng.choice([1, 2, 3, 4])):
            m = rng.choice(SHARED_CALLS)
            call = F.gen_call(rng, m, CFG)
            if m in ("read10", "read16"):
                call["args"] = [rng.randrange(1000), rng.choice([0, 1, 2])]
            call["kw"].pop("alloclen", None)
            ops.append(dict(op="sfacade", thread=t, fault=rng.choice(SHARED_FAULTS), **call))
    return {"property": ID, "config": {"strategy": gen_strategy(rng), "sched_seed": rng.randrange(1 << 62),
                                       "shared": {"transport": rng.choice(["sgio", "iscsi"])}}, "ops": ops}


PLIST_CLASSES = ["ExtendedCopy4", "ExtendedCopy5", "PersistentReserveOut", "ModeSelect6", "ModeSelect10", "ReadCd", "ExtendedCopy4", "ExtendedCopy5"]


def gen_contention(rng, idx):
    """2-3 threads that all build commands of the few classes whose constructors marshal a parameter list in several steps
    (descriptor lists, TransportIDs, mode pages), with differently shaped arguments: the longest windows for cross-talk"""
    nt = rng.choice([2, 2, 3])
    pool = rng.sample(PLIST_CLASSES, rng.choice([1, 2, 2]))
    ops = []
    for t in range(nt):
        n = rng.choice([1, 2, 3])
        for j in range(n):
            ops.append(dict(op="construct", thread=t, **gen_ctor(rng, rng.choice(pool))))
            if ops[-1]["cls"] in ("ExtendedCopy4", "ExtendedCopy5") and rng.random() < 0.15:
                ops[-1]["junk_seg_key"] = "bogus"
            if rng.random() < 0.3:
                ops.append(dict(op="construct_twice", thread=t, **gen_ctor(rng, rng.choice(pool))))     # the same argument objects used for two commands
            if rng.random() < 0.4:
                ops.append({"op": rng.choice(["recheck", "decode_own", "unmarshall_own"]), "thread": t, "slot": j, "seed": rng.randrange(1 << 20)})
    return {"property": ID, "config": {"strategy": gen_strategy(rng), "sched_seed": rng.randrange(1 << 62)}, "ops": ops}


def generate(rng, idx, tier):
    r0 = rng.random()
    if r0 < 0.18:
        return gen_shared(rng, idx)
    if r0 < 0.28:
        return gen_contention(rng, idx)
    nt = rng.choice([1, 2, 2, 2, 3, 3])
    pool = rng.sample(NAMES, rng.choice([2, 3, 5, 42]))
    threads = [gen_thread_ops(rng, rng.choice([2, 3, 4, 6, 8]), pool, True) for _ in range(nt)]
    return {"property": ID, "config": {"strategy": gen_strategy(rng), "sched_seed": rng.randrange(1 << 62)},
            "ops": [{"thread": t, **op} for t, ops in enumerate(threads) for op in ops]}


S_MAX = 700           # more line steps than one facade call takes
SHARED_PAIRS = [("inquiry", 3, "readcapacity16", 0), ("testunitready", 6, "inquiry", 4), ("readcapacity10", 0, "reportluns", 3),
                ("modesense6", 5, "read10", 0), ("inquiry", 0, "inquiry", 3), ("read16", 7, "testunitready", 0),
                ("reportluns", 4, "modesense10", 0), ("getlbastatus", 0, "readcapacity16", 5)]


def n_pairs(tier):
    return 8 if tier == "thorough" else 3


# scheduler steps (line/call/return events inside pyscsi) one construction takes at most, measured over generated arguments, plus margin
CTOR_STEPS = {"ATAPassThrough12": 620, "ATAPassThrough16": 700, "ExchangeMedium": 330, "ExtendedCopy4": 2900, "ExtendedCopy5": 3050,
              "GetLBAStatus": 790, "InitializeElementStatus": 110, "InitializeElementStatusWithRange": 250, "Inquiry": 200,
              "ModeSelect10": 720, "ModeSelect6": 710, "ModeSense10": 340, "ModeSense6": 290, "MoveMedium": 260,
              "OpenCloseImportExportElement": 175, "PersistentReserveIn": 175, "PersistentReserveInReadFullStatus": 185,
              "PersistentReserveInReadKeys": 185, "PersistentReserveInReadReservation": 185, "PersistentReserveInReportCapabilities": 185,
              "PersistentReserveOut": 680, "PositionToElement": 215, "PreventAllowMediumRemoval": 130, "Read10": 400, "Read12": 425,
              "Read16": 460, "ReadCapacity10": 105, "ReadCapacity16": 695, "ReadCd": 390, "ReadDiscInformation": 175,
              "ReadElementStatus": 375, "ReportLuns": 200, "ReportPriority": 455, "ReportTargetPortGroups": 450,
              "SynchronizeCache10": 270, "SynchronizeCache16": 325, "TestUnitReady": 100, "Write10": 370, "Write12": 395,
              "Write16": 430, "WriteSame10": 370, "WriteSame16": 460}
assert sorted(CTOR_STEPS) == NAMES
_CTOR_TABLE = {}


def ctor_windows(tier):
    """[(class, step)]: every (thorough) / every third (quick) pre-emption point of constructing each class"""
    if tier not in _CTOR_TABLE:
        stride = 1 if tier == "thorough" else 3
        _CTOR_TABLE[tier] = [(n, st) for n in NAMES for st in range(0, CTOR_STEPS[n], stride)]
    return _CTOR_TABLE[tier]


HEAVY = ["ExtendedCopy4", "ExtendedCopy5", "PersistentReserveOut", "ModeSelect6", "ModeSelect10"]
_PROBE_TABLE = {}


def probe_windows(tier):
    """[(class, step)]: the pre-emption points of the constructors that marshal parameter lists, for the cross-class probes"""
    if tier not in _PROBE_TABLE:
        stride = 1 if tier == "thorough" else 3
        _PROBE_TABLE[tier] = [(n, st) for n in HEAVY for st in range(1, CTOR_STEPS[n], stride)]
    return _PROBE_TABLE[tier]


def enumerated_count(tier):
    return (42 * 42 if tier == "thorough" else 42 * 6) + n_pairs(tier) * S_MAX * 2 + len(ctor_windows(tier)) + len(probe_windows(tier))


def enumerated_probe_window(k, tier):
    """thread 0 is pre-empted at step s of a parameter-list constructor; inside the window thread 1 uses OTHER classes whose tables such
    a constructor borrows (designation descriptors of INQUIRY page 83h, mode pages, TransportIDs): every result as when run alone"""
    name, st = probe_windows(tier)[k]
    rng = random.Random(NAMES.index(name) * 104729 + 5)
    vpd83 = R.vpd_device_id(0, [R.designation_descriptor(1, 0, 3, R.naa6(0x589CFC, 7, 0x1122334455667788)),
                                R.designation_descriptor(1, 1, 4, R.be(2, 4), piv=1, proto=5),
                                R.designation_descriptor(3, 2, 8, b"iqn.2026-10.verif:probe\0", piv=1, proto=5)])
    ops = [dict(op="construct", thread=0, **_shaped(name, rng, True)), {"op": "recheck", "thread": 0, "slot": 0},
           {"op": "roundtrip_datain", "thread": 1, "cls": "Inquiry", "buf": bytes(vpd83).hex(), "dkw": {"evpd": 1}, "tw": gen_ctor(rng, "Inquiry")},
           {"op": "unmarshall_datain", "thread": 1, "cls": "ModeSense10", "buf": bytes(_mode_sense10_answer(rng)).hex(), "dkw": {}, "tw": gen_ctor(rng, "ModeSense10")},
           {"op": "unmarshall_datain", "thread": 1, "cls": "PersistentReserveInReadFullStatus", "buf": bytes(DATAIN["PersistentReserveInReadFullStatus"](rng)[0]).hex(), "dkw": {},
            "tw": gen_ctor(rng, "PersistentReserveInReadFullStatus")},
           dict(op="construct", thread=1, **gen_ctor(rng, "Inquiry")), {"op": "decode_own", "thread": 1, "slot": 0}]
    return {"property": ID, "config": {"strategy": {"kind": "replay", "p_op": 0.0}, "sched_seed": 0},
            "schedule": [[0, 0], [st + 2, 1]], "ops": ops}


def _shaped(name, rng, big):
    """constructor arguments of one class in a large and in a small shape (differently long lists)"""
    spec = gen_ctor(rng, name)
    if name in ("ExtendedCopy4", "ExtendedCopy5"):
        five = name.endswith("5")
        mk = F._spc5 if five else F._copy
        nt = 3 if big else 1
        seg = mk(F.SEG_B2B)
        seg["source_cscd_descriptor_id" if five else "source_target_descriptor_id"] = nt - 1
        seg["destination_cscd_descriptor_id" if five else "destination_target_descriptor_id"] = 0
        spec["kw"] = {("cscd_descriptor_list" if five else "target_descriptor_list"): [mk(F.TGT_DESC) for _ in range(nt)],
                      "segment_descriptor_list": [seg] * 1 + ([mk(F.SEG_B2B)] if big else []),
                      "inline_data": {"$b": [7 if big else 8, 6 if big else 1]}}
        if big:
            spec["kw"]["segment_descriptor_list"][1]["destination_cscd_descriptor_id" if five else "destination_target_descriptor_id"] = 1
        # descriptor types given by name (resolved through the library's name tables: shared, possibly lazily built, state)
        for d in spec["kw"]["cscd_descriptor_list" if five else "target_descriptor_list"]:
            d["descriptor_type_code"] = F.TGT_NAME[5 if five else 4]
        for d in spec["kw"]["segment_descriptor_list"]:
            d["descriptor_type_code"] = F.SEG_NAME
    elif name == "PersistentReserveOut":
        tid = {"protocol_id": 5, "iscsi_name": "iqn.2026-10.verif:%s" % ("b" * (9 if big else 1))}
        spec["args"] = [0]
        spec["kw"] = {"service_action_reservation_key": 5 if big else 6, "spec_i_pt": 1, "transport_ids": [tid] * (3 if big else 1)}
    return spec


def enumerated_ctor_window(k, tier):
    """two threads build a command of the SAME class with differently shaped arguments; thread 0 is pre-empted at step s of its
    constructor, thread 1 builds and uses its command inside that window, thread 0 resumes.  All windows of every constructor."""
    name, st = ctor_windows(tier)[k]
    rng = random.Random(NAMES.index(name) * 7919 + 11)
    ops = [dict(op="construct", thread=0, **_shaped(name, rng, True)), {"op": "decode_own", "thread": 0, "slot": 0},
           {"op": "unmarshall_own", "thread": 0, "slot": 0, "seed": 5},
           dict(op="construct", thread=1, **_shaped(name, rng, False)), {"op": "encode_own", "thread": 1, "slot": 0},
           {"op": "unmarshall_own", "thread": 1, "slot": 0, "seed": 6}]
    return {"property": ID, "config": {"strategy": {"kind": "replay", "p_op": 0.0}, "sched_seed": 0},
            "schedule": [[0, 0], [st + 2, 1]], "ops": ops}


def enumerated_atomicity(k, tier):
    """every single pre-emption point: thread 0 is pre-empted at global step s, thread 1 then runs its whole call on the
    SAME facade and device, thread 0 resumes (all atomicity windows of one call, at source-line granularity)"""
    pair = SHARED_PAIRS[(k // S_MAX) % n_pairs(tier)]
    transport = "iscsi" if (k // (S_MAX * n_pairs(tier))) % 2 else "sgio"
    s = k % S_MAX
    rng = random.Random(k // S_MAX)
    ops = []
    for t, (m, fi) in enumerate(((pair[0], pair[1]), (pair[2], pair[3]))):
        call = F.gen_call(rng, m, CFG)
        call["kw"].pop("alloclen", None)
        if m in ("read10", "read16"):
            call["args"] = [7, 1]
        ops.append(dict(op="sfacade", thread=t, fault=SHARED_FAULTS[fi], **call))
    return {"property": ID, "config": {"strategy": {"kind": "replay", "p_op": 0.0}, "sched_seed": 0, "shared": {"transport": transport}},
            "schedule": [[0, 0], [s + 1, 1]], "ops": ops}


def enumerated(k, tier):
    base = 42 * 42 if tier == "thorough" else 42 * 6
    if k >= base + n_pairs(tier) * S_MAX * 2 + len(ctor_windows(tier)):
        return enumerated_probe_window(k - base - n_pairs(tier) * S_MAX * 2 - len(ctor_windows(tier)), tier)
    if k >= base + n_pairs(tier) * S_MAX * 2:
        return enumerated_ctor_window(k - base - n_pairs(tier) * S_MAX * 2, tier)
    if k >= base:
        return enumerated_atomicity(k - base, tier)
    if tier == "thorough":
        a, b = NAMES[k // 42], NAMES[k % 42]
    else:
        a, b = NAMES[k // 6], NAMES[(k // 6 + 1 + (k % 6) * 7) % 42]
    rng = random.Random(k * 104729 + 7)
    ops = [dict(op="construct", thread=0, **gen_ctor(rng, a)), dict(op="construct", thread=0, **gen_ctor(rng, b)),
           {"op": "decode_own", "thread": 0, "slot": 0}, {"op": "encode_own", "thread": 0, "slot": 0},
           {"op": "recheck", "thread": 0, "slot": 0}, {"op": "decode_own", "thread": 0, "slot": 1}]
    return {"property": ID, "config": {"strategy": {"kind": "random", "p": 0.0, "p_op": 0.0}, "sched_seed": k}, "ops": ops}


# ---- execution --------------------------------------------------------------
def _cls(name):
    mod, cname = CLASSES[name][0], CLASSES[name][1]
    return getattr(importlib.import_module(mod), cname)


def _opcode(name):
    import pyscsi.pyscsi.scsi_enum_command as E
    from pyscsi.utils.converter import get_opcode
    opc = getattr(E, CLASSES[name][2])
    spec = CLASSES[name][3]
    if isinstance(spec, tuple):
        return next(get_opcode(opc, spec[1]))
    return getattr(opc, spec)


def construct(spec, blocksize=512, prebuilt=None):
    name = spec["cls"]
    cls = _cls(name)
    if prebuilt is not None:
        args, kw = prebuilt
    else:
        args = F.real_args(spec["args"])
        kw = F.real_args(spec["kw"])
    if spec.get("junk_seg_key"):
        segs = kw.setdefault("segment_descriptor_list", [])
        if not segs:
            segs.append(F.real_args((F._spc5 if name == "ExtendedCopy5" else F._copy)(F.SEG_B2B)))
        segs[-1][spec["junk_seg_key"]] = 1
    op = _opcode(name)
    if name == "PersistentReserveIn":
        return cls(op, args[0], **kw)
    if CLASSES[name][5] == "prin_sub":
        return cls(op, **kw)
    if CLASSES[name][4]:
        return cls(op, spec.get("blocksize", blocksize), *args, **kw)
    return cls(op, *args, **kw)


def canon(v):
    return hashlib.sha256(json.dumps(_norm(v), sort_keys=True).encode()).hexdigest()[:20]


def snap(cmd):
    return canon([bytes(cmd.cdb) if cmd.cdb is not None else None,
                  bytes(cmd.dataout) if cmd.dataout is not None else None,
                  bytes(cmd.datain) if cmd.datain is not None else None])


class ThreadCtx:
    shared = None

    def __init__(self, t):
        self.t = t
        self.slots = []
        self.slot_specs = []
        self.snaps = []
        self.scsi = None
        self.lu = None


def do_op(ctx, op, reference):
    """-> outcome string.  reference=True inserts the throw-away same-class
    construction before static-method ops."""
    kind = op["op"]

    def body():
        if kind == "attach":
            SCSI, SCSIDevice, _ = worlds.lib()
            path = "/dev/sg%d" % (10 + ctx.t)
            ctx.lu = worlds.make_lu(CFG, ident=ctx.t + 1)
            WORLD.plug(path, ctx.lu)
            ctx.scsi = SCSI(SCSIDevice(path), blocksize=512)
            return "attached"
        if kind == "facade":
            if ctx.scsi is None:
                return "no-facade"
            WORLD.probe("facade_in_thread")
            n0 = len(ctx.lu.log)
            cmd = getattr(ctx.scsi, op["m"])(*F.real_args(op["args"]), **F.real_args(op["kw"]))
            return [snap(cmd), canon(cmd.result), canon([(n, f) for n, f in ctx.lu.log[n0:]])]
        if kind == "construct":
            try:
                cmd = construct(op)
            except BaseException:
                ctx.slots.append(None)
                ctx.slot_specs.append(op)
                ctx.snaps.append(None)
                WORLD.probe("failed_construction")
                raise
            ctx.slots.append(cmd)
            ctx.slot_specs.append(op)
            ctx.snaps.append(snap(cmd))
            return ctx.snaps[-1]
        if kind == "sfacade":
            scsi = ctx.shared
            if scsi is None:        # reference run: a device and a facade of its own
                lu = worlds.make_lu(CFG, ident=1)
                scsi = worlds.lib()[0](worlds.open_device(op["_transport"], lu), blocksize=512)
            if op.get("fault"):
                WORLD.arm(dict(op["fault"], thread=ctx.t if ctx.shared is not None else None))
            WORLD.probe("shared_facade_call")
            try:
                cmd = getattr(scsi, op["m"])(*F.real_args(op["args"]), **F.real_args(op["kw"]))
            except Exception as e:  # noqa
                if hasattr(e, "asc"):
                    return "exc:%s:%r" % (type(e).__name__, (getattr(e, "data", {}).get("sense_key"), e.asc, e.ascq))
                raise
            return [snap(cmd), canon(cmd.result)]
        if kind == "construct_twice":
            pre = (F.real_args(op["args"]), F.real_args(op["kw"]))
            first = snap(construct(op, prebuilt=pre))
            second = snap(construct(op, prebuilt=pre))
            return [first, second]
        if kind == "decode_foreign":
            if op["slot"] >= len(ctx.slots) or ctx.slots[op["slot"]] is None:
                return "no-object"
            if reference:
                try:
                    construct(op["tw"])
                except Exception:  # noqa
                    pass
            return canon(_cls(op["cls"]).unmarshall_cdb(bytes(ctx.slots[op["slot"]].cdb)))
        if kind == "scribble":
            # the owner grows / fills its own command's buffers in place (e.g. appends parameter data); nobody else's may change
            if op["slot"] >= len(ctx.slots) or ctx.slots[op["slot"]] is None:
                return "no-object"
            cmd = ctx.slots[op["slot"]]
            for buf in (cmd.dataout, cmd.datain):
                if isinstance(buf, bytearray):
                    buf.extend(b"\xa5" * op["n"])
            if op.get("cdb") and isinstance(cmd.cdb, bytearray) and len(cmd.cdb):
                cmd.cdb[-1] ^= op["cdb"]
            ctx.snaps[op["slot"]] = snap(cmd)
            return "scribbled"
        if kind == "rebuild":
            # the command's own build_cdb, called twice with equal inputs (the fields decoded from its CDB)
            if op["slot"] >= len(ctx.slots) or ctx.slots[op["slot"]] is None:
                return "no-object"
            cmd = ctx.slots[op["slot"]]
            if reference:
                construct(ctx.slot_specs[op["slot"]])
            d = type(cmd).unmarshall_cdb(cmd.cdb)
            b1 = bytes(cmd.build_cdb(**d))
            b2 = bytes(cmd.build_cdb(**dict(d)))
            return [canon(b1), canon(b2), snap(cmd)]
        if kind == "unmarshall_own":
            if op["slot"] >= len(ctx.slots) or ctx.slots[op["slot"]] is None:
                return "no-object"
            cmd = ctx.slots[op["slot"]]
            if isinstance(cmd.datain, bytearray) and len(cmd.datain):
                # what "the device" left in the buffer: a well-formed answer of this command where the simulator has an encoder for it
                # (arbitrary bytes in a 16 KiB buffer make some decoders walk thousands of descriptors - C11's subject, and far too
                # many scheduler steps under bytecode granularity), otherwise 64 arbitrary bytes; the rest of the buffer is zero
                cname = ctx.slot_specs[op["slot"]]["cls"] if op["slot"] < len(ctx.slot_specs) else None
                if cname in DATAIN:
                    ans = bytes(DATAIN[cname](random.Random(op.get("seed", 0)))[0])
                else:
                    ans = bytes(F.pattern(op.get("seed", 0), 64))
                n_ = min(len(ans), len(cmd.datain))
                cmd.datain[:] = bytes(len(cmd.datain))
                cmd.datain[:n_] = ans[:n_]
            ctx.snaps[op["slot"]] = snap(cmd)
            cmd.unmarshall()
            return canon(cmd.result)
        if kind in ("decode_own", "encode_own", "recheck", "repeat_encode"):
            if op["slot"] >= len(ctx.slots) or ctx.slots[op["slot"]] is None:
                return "no-object"
            cmd = ctx.slots[op["slot"]]
            if kind == "recheck":
                return snap(cmd)
            if reference:
                construct(ctx.slot_specs[op["slot"]])     # throw-away instance of the same class
            if kind == "decode_own":
                return canon(type(cmd).unmarshall_cdb(cmd.cdb))
            d = type(cmd).unmarshall_cdb(cmd.cdb)
            if reference:
                construct(ctx.slot_specs[op["slot"]])
            first = bytes(type(cmd).marshall_cdb(d))
            if kind == "repeat_encode":
                second = bytes(type(cmd).marshall_cdb(dict(d)))
                return canon([first, second, first == second])
            return canon(first)
        cls = _cls(op["cls"])
        if reference:
            try:
                construct(op["tw"])
            except Exception:  # noqa - e.g. ModeSelect10 cannot be built at all today (C13)
                pass
        if kind == "decode":
            return canon(cls.unmarshall_cdb(bytes.fromhex(op["cdb"])))
        buf = bytearray.fromhex(op["buf"])
        dkw = op.get("dkw") or {}
        if kind == "unmarshall_datain":
            return canon(cls.unmarshall_datain(buf, **dkw))
        if kind == "roundtrip_datain":
            return canon(bytes(cls.marshall_datain(cls.unmarshall_datain(buf, **dkw))))
        raise RuntimeError("unknown op %r" % (kind,))

    k, v = worlds.outcome_of(body)
    if k == "exc":
        if isinstance(v, sched.HarnessAbort):
            raise v
        return "exc:%s" % type(v).__name__
    return v if isinstance(v, str) else json.dumps(v)


def by_thread(prog):
    n = 1 + max([op["thread"] for op in prog["ops"]] or [0])
    lists = [[] for _ in range(n)]
    for i, op in enumerate(prog["ops"]):
        lists[op["thread"]].append((i, op))
    return lists


def _alone(arg):
    """one operation in a pristine process: only the object it refers to is built first"""
    t, op, slot_spec, scribbles = arg
    WORLD.reset()
    ctx = ThreadCtx(t)
    if slot_spec is not None:
        # rebuild the object the op refers to (as slot 0)
        try:
            ctx.slots.append(construct(slot_spec))
        except BaseException:  # noqa
            ctx.slots.append(None)
        ctx.slot_specs.append(slot_spec)
        ctx.snaps.append(snap(ctx.slots[0]) if ctx.slots[0] is not None else None)
        op = dict(op, slot=0)
        for n_ in scribbles:         # what the owner itself did to this object earlier
            if isinstance(n_, dict):
                do_op(ctx, dict(n_, slot=0), True)
            else:
                do_op(ctx, {"op": "scribble", "slot": 0, "n": n_}, True)
    out = do_op(ctx, op, True)
    fin = snap(ctx.slots[-1]) if op["op"] == "construct" and ctx.slots and ctx.slots[-1] is not None else None
    return {"out": out, "final": fin}


def compute_reference(prog):
    """Reference outcomes.  Operations that do not touch a device are executed truly alone, each in its own process forked
    from the pristine template (so even the same thread's earlier commands cannot influence them); facade operations
    depend on the target's state by design and are executed as the thread's own sequence, alone."""
    WORLD.reset()
    out = {}
    for t, lst in enumerate(by_thread(prog)):
        ctx = ThreadCtx(t)
        specs = []
        finals = []
        scr = {}
        for i, op in lst:
            if op["op"] in ("attach", "facade"):
                out[str(i)] = do_op(ctx, op, True)
                continue
            if op["op"] == "sfacade":
                r = core.fork_run(_alone, (t, dict(op, _transport=prog["config"]["shared"]["transport"]), None, []))
                if "harness_error" in r:
                    raise RuntimeError("alone-reference failed: " + r["harness_error"])
                out[str(i)] = r["out"]
                continue
            slot_spec = None
            if "slot" in op:
                if op["slot"] >= len(specs):
                    out[str(i)] = "no-object"
                    continue
                slot_spec = specs[op["slot"]]
            r = core.fork_run(_alone, (t, op, slot_spec, scr.get(op.get("slot"), []) if "slot" in op else []))
            if op["op"] == "scribble":
                scr.setdefault(op["slot"], []).append({"op": "scribble", "n": op["n"], "cdb": op.get("cdb")})
            if op["op"] == "unmarshall_own":
                scr.setdefault(op["slot"], []).append({"op": "unmarshall_own", "seed": op.get("seed", 0)})
            if "harness_error" in r:
                raise RuntimeError("alone-reference failed: " + r["harness_error"])
            out[str(i)] = r["out"]
            if op["op"] == "construct":
                specs.append(op)
                finals.append(r["final"])
        out["final%d" % t] = finals
    return out


def execute(prog):
    ref = core.fork_run(compute_reference, prog)
    if "harness_error" in ref:
        raise RuntimeError("reference run failed: " + ref["harness_error"])
    WORLD.reset()
    lists = by_thread(prog)
    nt = len(lists)
    cfg = prog["config"]
    S = sched.Scheduler(nt, cfg["sched_seed"], cfg["strategy"] if "schedule" not in prog else dict(cfg["strategy"], kind="replay"),
                        PREFIX, trace=prog.get("schedule"))
    got = {}
    ctxs = [ThreadCtx(t) for t in range(nt)]
    if cfg.get("shared"):
        lu0 = worlds.make_lu(CFG, ident=1)
        shared_scsi = worlds.lib()[0](worlds.open_device(cfg["shared"]["transport"], lu0), blocksize=512)
        for c in ctxs:
            c.shared = shared_scsi
        WORLD.probe("shared_device_threads")

    def make_body(t):
        def body(_):
            for i, op in lists[t]:
                S.yield_point("op")
                WORLD.ev("op", i=i, op=op["op"], cls=op.get("cls"))
                got[str(i)] = do_op(ctxs[t], op, False)
                WORLD.ev("op.end", i=i, out=got[str(i)][:40])
        return body

    S.run([make_body(t) for t in range(nt)])
    V = []
    multi = nt > 1
    for t, lst in enumerate(lists):
        for i, op in lst:
            want, have = ref.get(str(i)), got.get(str(i))
            if want != have:
                if op["op"] == "sfacade":
                    who = op["m"]
                elif op["op"] in ("construct", "decode", "unmarshall_datain", "roundtrip_datain", "construct_twice"):
                    who = op["cls"]
                elif "slot" in op and op["slot"] < len(ctxs[t].slot_specs):
                    who = ctxs[t].slot_specs[op["slot"]]["cls"]
                else:
                    who = op.get("m", "-")
                V.append(dict(oracle="C09.depends-on-others", where="threads" if multi else "sequential", detail=op["op"],
                              expected="%s(%s) alone gives %s" % (op["op"], who, str(want)[:60]),
                              actual="%s under this history/schedule" % str(have)[:60]))
        for i, op in lst:
            if op["op"] == "rebuild" and got.get(str(i), "").startswith("["):
                a_, b_, s_ = json.loads(got[str(i)])
                if a_ != b_:
                    V.append(dict(oracle="C09.repeat-differs", where="threads" if multi else "sequential", detail="build_cdb",
                                  expected="build_cdb twice with equal inputs gives equal bytes", actual="second call differs"))
            if op["op"] == "construct_twice" and got.get(str(i), "").startswith("["):
                a_, b_ = json.loads(got[str(i)])
                if a_ != b_:
                    V.append(dict(oracle="C09.repeat-differs", where="threads" if multi else "sequential", detail=op["cls"],
                                  expected="constructing %s twice from the same argument objects gives the same CDB and buffers" % op["cls"],
                                  actual="second construction differs"))
        final = [snap(c) if c is not None else None for c in ctxs[t].slots]
        if final != ctxs[t].snaps:
            V.append(dict(oracle="C09.object-changed", where="threads" if multi else "sequential", detail="held-object",
                          expected="objects held by thread %d unchanged since construction" % t, actual="cdb/buffers differ at the end"))
        scribbled = set(op["slot"] for _, op in lst if op["op"] in ("scribble", "unmarshall_own"))
        ref_final = ref.get("final%d" % t) or []
        same = len(final) == len(ref_final) and all(a == b for k_, (a, b) in enumerate(zip(final, ref_final)) if k_ not in scribbled)
        if not same:
            V.append(dict(oracle="C09.object-differs-from-alone", where="threads" if multi else "sequential", detail="held-object",
                          expected="same objects as when thread %d runs alone" % t, actual="cdb/buffers differ"))
    out, sigs = [], set()
    for v in V:
        k = (v["oracle"], v["where"], v["detail"])
        if k not in sigs:
            sigs.add(k)
            out.append(v)
    in_lib = [s for s in S.switches if s[3] not in ("op", "end", "start", "lock")]
    if in_lib:
        WORLD.probe("preempt_in_library", len(in_lib))
    if any("scsi_command.py" in s[3] for s in in_lib):
        WORLD.probe("switch_in_SCSICommand_init")
    if nt >= 3:
        WORLD.probe("three_threads")
    for s in S.switches:
        WORLD.ev("switch", step=s[0], frm=s[1], to=s[2], at=s[3])
    classes = set(op.get("cls") for op in prog["ops"] if op["op"] == "construct")
    stats = {"events": len(WORLD.events), "steps": S.steps, "preemptions": S.preemptions, "switch_sites": len(S.where_switched)}
    for k, v in WORLD.fired.items():
        stats["fired." + k] = v
    for k, v in WORLD.probes.items():
        stats["probe." + k] = v
    aux = hashlib.sha256(json.dumps([[s_[1], s_[2], s_[3]] for s_ in S.switches]).encode()).hexdigest() if multi else None
    return {"digest": WORLD.digest(), "violations": out, "nontrivial": bool(in_lib) if multi else len(classes) >= 2, "aux": aux,
            "stats": stats, "schedule": S.recorded_trace(), "summary": {"threads": nt, "steps": S.steps, "switches": len(S.switches)},
            "events_tail": WORLD.events[-6:]}


def repair(prog):
    """after ops were removed: keep slot references valid, renumber threads"""
    prog = copy.deepcopy(prog)
    prog.pop("schedule", None)
    threads = sorted(set(op["thread"] for op in prog["ops"]))
    ren = {t: i for i, t in enumerate(threads)}
    count = {}
    ops = []
    slotmap = {}
    orig_slot = {}
    for op in prog["ops"]:
        t = op["thread"]
        if op["op"] == "construct":
            pass
    # recompute slots per thread: dropping a construct invalidates later slot indexes -> refuse such candidates
    seen = {}
    for op in prog["ops"]:
        t = op["thread"]
        if op["op"] == "construct":
            seen[t] = seen.get(t, 0) + 1
        elif "slot" in op and op["slot"] >= seen.get(t, 0):
            return None
        op["thread"] = ren[t]
    return prog


def simplify(prog):
    # fewer scheduler freedoms first
    cfg = prog["config"]
    if cfg["strategy"].get("opcode"):
        c = copy.deepcopy(prog)
        c["config"]["strategy"].pop("opcode")
        yield c
    for i, op in enumerate(prog["ops"]):
        if op.get("kw"):
            c = copy.deepcopy(prog)
            c["ops"][i]["kw"] = {}
            yield c
