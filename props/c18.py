"""C18 - enumerations map names to values and back consistently under
add/remove.  No faults and no schedule: histories of operations on several
live Enum objects, compared step by step with an ordinary dict per Enum (the
degenerate, fault-free case of model-based simulation; see DESIGN 2)."""

import copy

from sim.seams import WORLD, install, import_pyscsi

ID = "C18"
LEVEL = "exploration"
COUNTS = {"quick": 6000, "thorough": 300000}
RULE = ("seeded histories: 1-4 Enums alive at once, built from a dict, from keywords or by an OpCode object as its service-action table, with 0-8 entries (ints with repeated values, "
        "strings, bytes, tuples, None, nested dicts, OpCode objects; identifier and non-identifier names such as '5.25', 'CD-I', '_RESERVED', 'name', 'kwargs'), then "
        "0-30 operations from {attribute read, E[value], keys, add, remove, add existing, remove missing, build another Enum, the library's "
        "get_opcode() lookup on it or on a command-set table, a facade attaching to a device}; after "
        "every operation every live Enum is compared with its dict model (names in order, values, reverse lookup of every value and "
        "of absent values); the library's five command-set tables, on which no add/remove is made, must stay unchanged. Non-trivial = at least one add or remove succeeded while two or more Enums were alive; distinct = event "
        "digest. Excluded by the property's wording: names starting with '__', names of type/Enum API attributes, callable values, NaN")
COMPONENTS = {"real": ["pyscsi.utils.enum.Enum", "pyscsi.pyscsi.scsi_opcode.OpCode"], "stubs": [], "simulated_peers": ["dict reference model per Enum"]}
ASSUMPTIONS = [
    "E[v] must return the first name in insertion order whose value == v, '' if none (property statement); re-adding a removed name appends it at the end, as in a dict",
    "constructing from an empty mapping: Enum({}) is accepted (OpCode relies on it); Enum() with neither dict nor keywords is refused by design and not generated",
]
REQUIRED_PROBES = ["shared_source_dict", "source_dict_mutated", "opcode_serviceaction_enum", "add_ok", "remove_ok", "add_existing_refused", "remove_missing_refused", "duplicate_values", "multi_enum", "library_helper_read", "library_attach", "source_mutated_before_first_access"]

NAMES = ["A", "B", "C", "READ_10", "x", "y1", "Zz", "value", "name_", "k9", "5.25", "CD-I", "CD-ROM XA", "Less than 1.8", "a b", "é",
         "_RESERVED", "_x", "name", "args", "kwargs", "key", "bases", "dict",
         "items", "values", "get", "pop", "update", "copy", "clear", "index", "count"]      # single leading underscore; names that are parameters of the constructor machinery
RESERVED = {"keys", "add", "remove", "mro", "__getitem__"}


def setup(repo):
    install()
    import_pyscsi(repo)


def gen_value(rng):
    r = rng.random()
    if r < 0.5:
        return rng.choice([0, 1, 2, 3, 0x10, 0x12, 0xFF, -1, 4096, 0x1234, 70000, 4096])
    if r < 0.62:
        return rng.choice(["", "a", "READ", "x y", "A", "B", "x", "READ_10", "value"])     # some values spell other members' names
    if r < 0.7:
        return {"$bytes": rng.choice(["", "00", "0102"])}
    if r < 0.77:
        return {"$tuple": [rng.randrange(3), rng.randrange(3)]}
    if r < 0.82:
        return None
    if r < 0.9:
        return {"$dict": {"opcode": [255, rng.randrange(3)]}}
    if r < 0.95:
        return {"$opcode": [rng.choice(["INQUIRY", "X"]), rng.choice([0x12, 0x28]), {"SA": rng.randrange(3)}]}
    if r < 0.975:
        return rng.choice([True, False, 1.5])
    return {"$method": rng.randrange(3)}       # a bound method as value (a name -> handler table)


def generate(rng, idx, tier):
    ops = [{"op": "new", "form": rng.choice(["dict", "dict", "kw", "opcode"]),
            "items": [[rng.choice(NAMES), gen_value(rng)] for _ in range(rng.randrange(0, 9))]}]
    for _ in range(rng.choice([0, 2, 5, 10, 20, 30])):
        r = rng.random()
        e = rng.randrange(4)
        if r < 0.1:
            ops.append({"op": "new", "form": rng.choice(["dict", "kw", "opcode", "opcode"]),
                        "items": [[rng.choice(NAMES), gen_value(rng)] for _ in range(rng.choice([0, 0, 1, 3, 5]))],
                        "mutate_before_access": rng.random() < 0.3})
            if rng.random() < 0.35:
                ops[-1]["share_source_with"] = e      # built from the very same dict object as an earlier enumeration
        elif r < 0.14:
            # the caller goes on using (and changing) the dict it built an enumeration from
            ops.append({"op": "mutate_source", "e": e, "name": rng.choice(NAMES), "value": gen_value(rng), "delete": rng.random() < 0.4})
        elif r < 0.35:
            ops.append({"op": "add", "e": e, "name": rng.choice(NAMES), "value": gen_value(rng)})
        elif r < 0.55:
            ops.append({"op": "remove", "e": e, "name": rng.choice(NAMES)})
        elif r < 0.7:
            ops.append({"op": "getattr", "e": e, "name": rng.choice(NAMES)})
        elif r < 0.9:
            ops.append({"op": "lookup", "e": e, "value": gen_value(rng)})
        elif r < 0.95:
            ops.append({"op": "keys", "e": e})
        elif r < 0.975:
            # a library helper that only *reads* an enumeration: the service-action opcode lookup by name suffix
            ops.append({"op": "lib_lookup", "e": e, "suffix": rng.choice(["9E", "A3", "10", "_x", "AD"]), "table": rng.choice([None, "sbc", "spc", "smc", "mmc", "ssc"])})
        else:
            # the library's own use of its tables: a facade attaches to a device of some type
            ops.append({"op": "lib_attach", "e": e, "type": rng.choice([0, 1, 5, 8, 3, 7, 0x1F])})
    return {"property": ID, "config": {}, "ops": ops}


class Handlers:
    """an application object whose bound methods serve as enumeration values"""

    def __init__(self, n):
        self.n = n

    def __eq__(self, other):
        return isinstance(other, Handlers) and other.n == self.n

    def __hash__(self):
        return hash(self.n)

    def load(self):
        return self.n


def real(v):
    from pyscsi.pyscsi.scsi_opcode import OpCode
    if isinstance(v, dict) and "$method" in v:
        return Handlers(v["$method"]).load
    if isinstance(v, dict):
        if "$bytes" in v:
            return bytes.fromhex(v["$bytes"])
        if "$tuple" in v:
            return tuple(v["$tuple"])
        if "$dict" in v:
            return copy.deepcopy(v["$dict"])
        if "$opcode" in v:
            return OpCode(*v["$opcode"])
    return v


def show(v):
    return repr(v)[:60] if not hasattr(v, "value") else "OpCode(%r,%r)" % (getattr(v, "name", None), getattr(v, "value", None))


LIB_TABLES = ("spc", "sbc", "ssc", "smc", "mmc")


def execute(prog):
    WORLD.reset()
    from pyscsi.utils.enum import Enum
    import pyscsi.pyscsi.scsi_enum_command as EC
    V = []
    enums, models, sources = [], [], []
    summary = []

    def viol(oracle, detail, expected, actual):
        V.append(dict(oracle=oracle, where="enum", detail=detail, expected=expected, actual=actual))

    def eq(a, b):
        """a == b as the library's reverse lookup would ask it; a comparison that raises is the library's problem, not the harness's"""
        try:
            return bool(a == b)
        except Exception as e:  # noqa
            viol("C18.value-compare", "raises/" + type(e).__name__, "%s == %s is a truth value" % (show(a), show(b)), repr(e)[:80])
            return False

    # the library's own command-set tables: nobody in this run adds to or removes from them, so they must stay what they are
    lib0 = {}
    for t in LIB_TABLES:
        tab = getattr(EC, t)
        lib0[t] = [(k, getattr(tab, k)) for k in tab.keys]

    def compare_lib(after):
        for t in LIB_TABLES:
            tab = getattr(EC, t)
            try:
                now = [(k, getattr(tab, k)) for k in tab.keys]
            except Exception as e:  # noqa
                viol("C18.library-table", t + "/raises", "table %s readable after %s" % (t, after), repr(e)[:80])
                continue
            if [k for k, _ in now] != [k for k, _ in lib0[t]]:
                extra = [k for k, _ in now if k not in dict(lib0[t])]
                gone = [k for k, _ in lib0[t] if k not in dict(now)]
                viol("C18.library-table", t + "/names", "command set %s unchanged after %s (no add/remove was made on it)" % (t, after),
                     "new names %s, missing names %s" % (extra[:4], gone[:4]))
            elif any(a[1] is not b[1] for a, b in zip(now, lib0[t])):
                viol("C18.library-table", t + "/values", "command set %s unchanged after %s" % (t, after), "a member's value was replaced")

    def compare_all(after):
        for n, (getE, M) in enumerate(zip(enums, models)):
            try:
                E = getE()
            except Exception as e:  # noqa
                viol("C18.keys", "accessor-raises/" + type(e).__name__, "enum #%d reachable after %s" % (n, after), repr(e)[:80])
                continue
            try:
                keys = list(E.keys)
            except Exception as e:  # noqa
                viol("C18.keys", "raises/" + type(e).__name__, "keys of enum #%d after %s" % (n, after), repr(e)[:80])
                continue
            if keys != list(M):
                viol("C18.keys", "names", "names %r (enum #%d after %s)" % (list(M), n, after), "names %r" % keys)
                continue
            for name, val in M.items():
                try:
                    got = getattr(E, name)
                except Exception as e:  # noqa
                    viol("C18.value", "getattr-raises", "%s -> %s" % (name, show(val)), repr(e)[:80])
                    continue
                if got is not val and not eq(got, val):
                    viol("C18.value", "value", "%s -> %s (enum #%d after %s)" % (name, show(val), n, after), show(got))
            probes = list(M.values()) + [12345, "no-such-value", None, "pyscsi.utils.enum", "Enum", 0, ""]
            for v in probes:
                want = next((k for k, x in M.items() if x is v or eq(x, v)), "")
                try:
                    got = E[v]
                except Exception as e:  # noqa
                    viol("C18.reverse", "raises/" + type(e).__name__, "E[%s] == %r" % (show(v), want), repr(e)[:80])
                    continue
                if got != want:
                    viol("C18.reverse", "name", "E[%s] == %r (first name carrying it; enum #%d after %s)" % (show(v), want, n, after), repr(got))
            vals = [x for x in M.values() if isinstance(x, int)]
            if len(vals) != len(set(vals)):
                WORLD.probe("duplicate_values")

    for i, op in enumerate(prog["ops"]):
        name = op["op"]
        WORLD.ev("op", i=i, op=name)
        if name == "new":
            items = [(k, real(v)) for k, v in op["items"] if not k.startswith("__") and k not in RESERVED]
            d = {}
            for k, v in items:
                d[k] = v          # dict semantics: later value wins, position of first insertion kept
            form = op["form"]
            if form == "kw" and (not d or not all(k.isidentifier() for k in d)):
                form = "dict"
            if "share_source_with" in op and sources and form != "kw":
                d = sources[op["share_source_with"] % len(sources)]     # the same dict object again
                WORLD.probe("shared_source_dict")
            try:
                if form == "opcode":
                    # the service-action enumeration an OpCode object builds from a mapping (possibly empty)
                    from pyscsi.pyscsi.scsi_opcode import OpCode
                    given = dict(d)
                    oc = OpCode("OP_%d" % i, 0x5E, d)
                    if op.get("mutate_before_access") and not ("share_source_with" in op and sources):
                        # the caller goes on using its dict right after building the OpCode; the enumeration is what was supplied
                        d["LATER"] = 99
                        for k_ in list(d)[:1]:
                            if k_ != "LATER":
                                del d[k_]
                        WORLD.probe("source_mutated_before_first_access")
                        d = given
                    oc.serviceaction
                    getE = (lambda oc=oc: oc.serviceaction)      # applications reach it through the attribute every time
                    WORLD.probe("opcode_serviceaction_enum")
                else:
                    E0 = Enum(**d) if form == "kw" else Enum(d)
                    getE = (lambda E0=E0: E0)
            except Exception as e:  # noqa
                viol("C18.construct", type(e).__name__, "Enum built from %r" % (list(d),), repr(e)[:100])
                continue
            enums.append(getE)
            models.append(dict(d))
            sources.append(d)
            summary.append("new%d" % len(d))
            if len(enums) > 1:
                WORLD.probe("multi_enum")
        else:
            if not enums:
                continue
            n = op["e"] % len(enums)
            try:
                E, M = enums[n](), models[n]
            except Exception as e:  # noqa
                viol("C18.keys", "accessor-raises/" + type(e).__name__, "enum #%d reachable" % n, repr(e)[:80])
                continue
            if name == "add":
                key, val = op["name"], real(op["value"])
                if key in RESERVED or key.startswith("__"):
                    continue
                try:
                    E.add(key, val)
                    res = "ok"
                except KeyError:
                    res = "KeyError"
                except Exception as e:  # noqa
                    res = type(e).__name__
                want = "KeyError" if key in M else "ok"
                if res != want:
                    viol("C18.add", "%s-instead-of-%s" % (res, want), "add(%r) -> %s" % (key, want), res)
                if res == "ok":
                    if key not in M:
                        M[key] = val
                        WORLD.probe("add_ok")
                    else:
                        M[key] = val      # the library overwrote: follow it so later steps are judged on their own
                elif want == "KeyError" and res == "KeyError":
                    WORLD.probe("add_existing_refused")
                summary.append("add:" + res)
            elif name == "remove":
                key = op["name"]
                if key in RESERVED or key.startswith("__"):
                    continue
                try:
                    E.remove(key)
                    res = "ok"
                except KeyError:
                    res = "KeyError"
                except Exception as e:  # noqa
                    res = type(e).__name__
                want = "ok" if key in M else "KeyError"
                if res != want:
                    viol("C18.remove", "%s-instead-of-%s" % (res, want), "remove(%r) -> %s" % (key, want), res)
                if res == "ok" and key in M:
                    del M[key]
                    WORLD.probe("remove_ok")
                elif res == "KeyError" and want == "KeyError":
                    WORLD.probe("remove_missing_refused")
                summary.append("rm:" + res)
            elif name == "getattr":
                key = op["name"]
                if key in RESERVED or key.startswith("__"):
                    continue
                try:
                    got = getattr(E, key)
                    res = "ok"
                except AttributeError:
                    res = "AttributeError"
                except Exception as e:  # noqa
                    res = type(e).__name__
                want = "ok" if key in M else "AttributeError"
                if res != want:
                    viol("C18.getattr", "%s-instead-of-%s" % (res, want), "getattr(%r) -> %s" % (key, want), res)
            elif name == "lookup":
                v = real(op["value"])
                if isinstance(v, int) and not isinstance(v, bool):
                    v = int(str(v))          # an equal value computed at run time, not the stored object
                elif isinstance(v, str):
                    v = "".join(list(v))
                want = next((k for k, x in M.items() if x is v or eq(x, v)), "")
                try:
                    got = E[v]
                except Exception as e:  # noqa
                    got = "raises " + type(e).__name__
                if got != want:
                    viol("C18.reverse", "lookup", "E[%s] == %r" % (show(v), want), repr(got))
            elif name == "mutate_source":
                src = sources[n]
                if op.get("delete") and src:
                    src.pop(next(iter(src)))
                else:
                    src[op["name"]] = real(op["value"])
                WORLD.probe("source_dict_mutated")
            elif name == "keys":
                pass
            elif name == "lib_lookup":
                from pyscsi.utils.converter import get_opcode
                target = getattr(EC, op["table"]) if op.get("table") else E
                try:
                    list(get_opcode(target, op["suffix"]))
                    list(get_opcode(target, op["suffix"]))
                except Exception as e:  # noqa
                    viol("C18.library-helper", "get_opcode/" + type(e).__name__, "get_opcode(enum, %r) works on any enumeration" % op["suffix"], repr(e)[:80])
                WORLD.probe("library_helper_read")
                compare_lib("get_opcode#%d" % i)
            elif name == "lib_attach":
                from props.c13 import PlainDevice
                from pyscsi.pyscsi.scsi import SCSI
                from t10 import targets as T
                try:
                    SCSI(PlainDevice(EC.spc, T.make_lu(op["type"], 0, 40 + i), None), blocksize=512)
                except Exception as e:  # noqa
                    viol("C18.library-helper", "attach/" + type(e).__name__, "attach to a type %#04x device" % op["type"], repr(e)[:80])
                WORLD.probe("library_attach")
                compare_lib("attach#%d" % i)
        compare_all("%s#%d" % (name, i))
        if len(V) > 6:
            break
    out, sigs = [], set()
    for v in V:
        k = (v["oracle"], v["where"], v["detail"])
        if k not in sigs:
            sigs.add(k)
            out.append(v)
    stats = {"events": len(WORLD.events)}
    for k, v in WORLD.probes.items():
        stats["probe." + k] = v
    compare_lib("the run")
    nt = WORLD.probes.get("multi_enum", 0) > 0 and (WORLD.probes.get("add_ok", 0) + WORLD.probes.get("remove_ok", 0)) > 0
    for i, M in enumerate(models):
        WORLD.ev("final", i=i, names=list(M))
    return {"digest": WORLD.digest(), "violations": out, "nontrivial": nt, "stats": stats, "summary": summary[:20], "events_tail": WORLD.events[-3:]}


def simplify(prog):
    for i, op in enumerate(prog["ops"]):
        if op["op"] == "new" and len(op["items"]) > 1:
            for j in range(len(op["items"])):
                c = copy.deepcopy(prog)
                del c["ops"][i]["items"][j]
                yield c
        if "value" in op and op["value"] not in (0, 1):
            c = copy.deepcopy(prog)
            c["ops"][i]["value"] = 1
            yield c
