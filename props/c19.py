"""C19 - the transport bindings are optional; a missing one is refused, not
half-used.  The template process has NOT imported pyscsi: every run chooses
which of the two bindings exist (fake module in sys.modules, or None = import
fails), installs the virtual /dev and network, imports the library freshly
and exercises it.  Oracle: imports succeed, commands build/encode/decode, the
facade works over a plain device, and the seam history of every
init_device / constructor call (no open/stat/Context/connect before a
refusal; exactly the requested path/URL otherwise)."""

import copy
import os
import pkgutil
import random

from sim.seams import WORLD, install
from t10 import targets as T

ID = "C19"
LEVEL = "fault_enumeration"
COUNTS = {"quick": 600, "thorough": 40000}
RULE = ("each run = one fresh import of the library under one of the 4 presence combinations of the sgio/iscsi bindings (absence is the "
        "injected fault), from the source tree or from the layout `packages = find:` installs, then: import of every module under pyscsi, construct+encode+decode of every command class, facade calls over "
        "plain recording device objects (block, tape, MMC, changer types; command set per type), and 4-12 init_device / SCSIDevice / ISCSIDevice calls with device strings from the listed families "
        "plus random strings, read-only/read-write, explicit/default/empty initiator names. Enumerated: 4 combinations x {source, installed layout} x every listed "
        "string x rw x {init_device, constructors} (complete in both tiers). Non-trivial = at least one refusal and (when a binding is "
        "present) one accepted device in the same run; distinct = event digest")
ENUMERATED_NOTE = "4 binding-presence combinations x {source tree, installed layout} x 17 device strings x read-only/read-write x {init_device, SCSIDevice, ISCSIDevice} x {default, explicit} initiator name"
COMPONENTS = {"real": ["every module under pyscsi (fresh import per run)", "init_device", "SCSIDevice/ISCSIDevice constructors", "all command classes", "SCSI facade"],
              "stubs": ["sgio / iscsi modules (present or absent)", "virtual /dev", "socket.gethostname", "plain recording device"],
              "simulated_peers": ["t10.targets.BlockLU behind the accepted devices"]}
ASSUMPTIONS = [
    "absence of a binding is simulated by sys.modules[name] = None, which makes `import name` raise ModuleNotFoundError as for a module that is not installed. A binding that is installed but fails to load (plain ImportError) is neither 'installed' nor 'missing' in the property's four combinations: the seam can simulate it (config missing_as=unloadable, used by replay files only) but it is not generated and not judged",
    "for a string with the right prefix and the binding present the library may fail with an OS/URL error from the binding (e.g. '/dev/' is a directory, 'iscsi://' has no target); then at most the one open/URL event on exactly that string is allowed",
    "an explicitly empty initiator name is not judged (the library substitutes the URL)",
]
REQUIRED_PROBES = ["open_refused_by_os", "refused_missing_binding", "refused_other_string", "accepted_sgio", "accepted_iscsi", "default_initiator", "all_modules_imported", "facade_plain_family", "facade_device_error", "facade_with_block", "installed_layout"]

REPO = "/repo"
STRINGS = ["/dev/sg0", "/dev/sg1", "/dev/", "/dev", "/devx", "/dev/nonexistent", "dev/sg0", " /dev/sg0",
           "iscsi://10.0.0.1:3260/iqn.2026-10.verif:tgt0/0", "iscsi://10.0.0.1:3260/iqn.2026-10.verif:tgt0/1", "iscsi://", "iscsi:/x", "ISCSI://10.0.0.1/iqn/0",
           "", "file.img", "http://example/", "/tmp/x",
           "/dev/disk/by-label/data%20disk", "iscsi://user%password@10.0.0.1/iqn.2026-10.verif:tgt0/0", "100%", "%s", "/dev/%(x)s"]
ISCSI_OK = {"iscsi://10.0.0.1:3260/iqn.2026-10.verif:tgt0/0": ("10.0.0.1:3260", "iqn.2026-10.verif:tgt0", 0),
            "iscsi://10.0.0.1:3260/iqn.2026-10.verif:tgt0/1": ("10.0.0.1:3260", "iqn.2026-10.verif:tgt0", 1)}
SG_OK = {"/dev/sg0", "/dev/sg1"}


SITE = None        # the library as an installation lays it out (see build_installed_layout)


def packages_found(root):
    """what `packages = find:` (setup.cfg) installs: directories with an __init__.py whose parent is the root or a package
    (setuptools.find_packages semantics), 'tests' excluded as configured"""
    out = []

    def walk(d, dotted):
        for name in sorted(os.listdir(d)):
            sub = os.path.join(d, name)
            if os.path.isdir(sub) and "." not in name and os.path.isfile(os.path.join(sub, "__init__.py")):
                pkg = dotted + [name]
                if pkg[0] != "tests":
                    out.append(pkg)
                    walk(sub, pkg)
    walk(root, [])
    return out


def build_installed_layout(repo):
    """copy what build_py would install into a scratch site directory (removed when the check process exits)"""
    import atexit
    import shutil
    import tempfile
    site = tempfile.mkdtemp(prefix="verif_c19_site_")
    owner = os.getpid()

    def cleanup():
        if os.getpid() == owner:
            shutil.rmtree(site, ignore_errors=True)
    atexit.register(cleanup)
    for pkg in packages_found(repo):
        src = os.path.join(repo, *pkg)
        dst = os.path.join(site, *pkg)
        os.makedirs(dst, exist_ok=True)
        for f in sorted(os.listdir(src)):
            if f.endswith(".py"):
                shutil.copyfile(os.path.join(src, f), os.path.join(dst, f))
    return site


def source_modules(repo):
    """every module the source tree holds under pyscsi/ (whether or not its directory is a regular package)"""
    mods = []
    base = os.path.join(repo, "pyscsi")
    for d, dirs, files in os.walk(base):
        dirs[:] = sorted(x for x in dirs if x != "__pycache__")
        rel = os.path.relpath(d, repo).split(os.sep)
        for f in sorted(files):
            if f.endswith(".py"):
                mods.append(".".join(rel + ([f[:-3]] if f != "__init__.py" else [])))
    return sorted(set(mods))


def setup(repo):
    global REPO, SITE
    REPO = os.path.realpath(repo)
    SITE = build_installed_layout(REPO)
    # deliberately no import of pyscsi and no seams here: every run starts from an interpreter that never saw the library


def gen_devop(rng):
    r = rng.random()
    if r < 0.8:
        s = rng.choice(STRINGS)
    else:
        alphabet = "/devisc:si.0 x"
        s = "".join(rng.choice(alphabet) for _ in range(rng.randrange(0, 12)))
        if rng.random() < 0.3:
            s = rng.choice(["/dev/", "iscsi://", "/dev", "iscsi:/"]) + s
    via = rng.choice(["init_device", "init_device", "SCSIDevice", "ISCSIDevice"])
    op = {"op": "device", "s": s, "via": via, "rw": rng.random() < 0.5}
    if rng.random() < 0.12:
        op["open_errno"] = rng.choice([13, 13, 16, 2])        # the OS refuses the first open of the node (EACCES, EBUSY, ENOENT)
    r = rng.random()
    if r < 0.4:
        # iSCSI names come in three formats (RFC 3720): iqn., eui., naa.
        op["initiator"] = rng.choice(["iqn.2026-10.verif:explicit%d" % rng.randrange(9), "iqn.2026-10.verif:explicit%d" % rng.randrange(9),
                                      "eui.02004567A425678D", "naa.52004567BA64678D"])
        op["positional"] = rng.random() < 0.5        # init_device(dev, read_write, initiator_name) as documented, by position
    elif r < 0.5:
        op["initiator"] = ""
    return op


def generate(rng, idx, tier):
    return {"property": ID, "config": {"sgio": rng.random() < 0.5, "iscsi": rng.random() < 0.5, "hostname": rng.choice(["simhost", "node-7", "a.b.c"]),
                                       # imported from the source tree, or from what `packages = find:` installs
                                       "layout": rng.choice(["source", "source", "installed"])},
            "ops": [{"op": "import_all"}, {"op": "commands", "seed": rng.randrange(1 << 30)}, {"op": "facade", "seed": rng.randrange(1 << 30)}]
            + [gen_devop(rng) for _ in range(rng.randrange(4, 13))]}


def enumerated_count(tier):
    return 4 * 2 * 3 * 2 * 2


def enumerated(k, tier):
    combo = k % 4
    rw = (k // 4) % 2 == 1
    via = ["init_device", "SCSIDevice", "ISCSIDevice"][(k // 8) % 3]
    explicit = (k // 24) % 2 == 1
    ops = [{"op": "import_all"}]
    if via == "init_device" and not rw and not explicit:
        ops += [{"op": "commands", "seed": k}, {"op": "facade", "seed": k}]
    for s in STRINGS:
        op = {"op": "device", "s": s, "via": via, "rw": rw}
        if explicit:
            op["initiator"] = "iqn.2026-10.verif:explicit"
        ops.append(op)
    return {"property": ID, "config": {"sgio": bool(combo & 1), "iscsi": bool(combo & 2), "hostname": "simhost",
                                       "layout": "installed" if (k // 48) % 2 else "source"}, "ops": ops}


PINNED_OPS = 0


def execute(prog):
    import importlib
    import sys
    WORLD.reset()
    cfg = prog["config"]
    if "pyscsi" in sys.modules:
        raise RuntimeError("harness: pyscsi already imported in the C19 template")
    miss = "unloadable" if cfg.get("missing_as") == "unloadable" else False
    install(sgio=cfg["sgio"] or miss, iscsi=cfg["iscsi"] or miss, hostname=cfg["hostname"])
    sys.dont_write_bytecode = True
    ROOT = SITE if cfg.get("layout") == "installed" else REPO      # where this run's library comes from
    if sys.path[0] != ROOT:
        sys.path.insert(0, ROOT)
    if ROOT == SITE:
        WORLD.probe("installed_layout")
    V = []
    summary = []

    def viol(oracle, where, detail, expected, actual):
        V.append(dict(oracle=oracle, where=where, detail=detail, expected=expected, actual=actual))

    where_cfg = "sgio=%d,iscsi=%d" % (cfg["sgio"], cfg["iscsi"])
    # the targets that exist in this world
    for p in sorted(SG_OK):
        WORLD.plug(p, T.BlockLU(0, 0, 1))
    for key in ISCSI_OK.values():
        WORLD.iscsi_targets[key] = T.BlockLU(0, 0, 2)
    imported = False

    def ensure_import():
        nonlocal imported
        if imported:
            return True
        try:
            importlib.import_module("pyscsi")
            f = os.path.realpath(sys.modules["pyscsi"].__file__)
            if not f.startswith(ROOT + os.sep):
                raise RuntimeError("harness: pyscsi imported from %s" % f)
            imported = True
            return True
        except RuntimeError:
            raise
        except BaseException as e:  # noqa
            viol("C19.import", where_cfg, "pyscsi/" + type(e).__name__, "import pyscsi succeeds", repr(e)[:120])
            return False

    for i, op in enumerate(prog["ops"]):
        name = op["op"]
        WORLD.ev("op", i=i, op=name, s=op.get("s"), via=op.get("via"))
        if not ensure_import():
            break
        if name == "import_all":
            mods = source_modules(REPO)      # every module of the source tree must be importable from where the library was installed
            bad = 0
            for m in mods:
                try:
                    importlib.import_module(m)
                except BaseException as e:  # noqa
                    bad += 1
                    viol("C19.import", where_cfg, "%s/%s" % (m.split(".")[-1], type(e).__name__), "import %s succeeds" % m, repr(e)[:120])
            if not bad and len(mods) >= 50:
                WORLD.probe("all_modules_imported")
            summary.append("imported %d modules" % len(mods))
        elif name == "commands":
            from props import c09
            rng = random.Random(op["seed"])
            for cname in c09.NAMES:
                spec = c09.gen_ctor(rng, cname)
                try:
                    cmd = c09.construct(spec)
                    d = type(cmd).unmarshall_cdb(cmd.cdb)
                    again = bytes(type(cmd).marshall_cdb(d))
                    if again != bytes(cmd.cdb):
                        viol("C19.command", where_cfg, cname, "encode(decode(cdb)) == cdb for %s" % cname, "%s vs %s" % (again.hex(), bytes(cmd.cdb).hex()))
                except BaseException as e:  # noqa
                    viol("C19.command", where_cfg, "%s/%s" % (cname, type(e).__name__), "%s can be built, encoded and decoded" % cname, repr(e)[:120])
            summary.append("commands")
        elif name == "facade":
            from props.c13 import PlainDevice
            from sim import facade as F
            import pyscsi.pyscsi.scsi_enum_command as E
            from pyscsi.pyscsi.scsi import SCSI
            rng = random.Random(op["seed"])
            lu = T.BlockLU(0, 0, 9)
            try:
                scsi = SCSI(PlainDevice(E.spc, lu, 0), blocksize=512)
                for m in ("inquiry", "testunitready", "read16", "readcapacity16", "write10", "reportluns", "modesense6"):
                    call = F.gen_call(rng, m, F.default_cfg(F.BLOCK))
                    call["kw"].pop("alloclen", None)      # truncated responses are not this property's subject
                    getattr(scsi, m)(*F.real_args(call["args"]), **F.real_args(call["kw"]))
            except BaseException as e:  # noqa
                viol("C19.facade", where_cfg, type(e).__name__, "the facade works over a plain device object", repr(e)[:120])
            # ... and over plain device objects of the other families: the command set follows the device's type
            from props import c16
            dtype = [0x01, 0x05, 0x08, 0x07, 0x04, 0x05, 0x08][op["seed"] % 7]
            pdev = PlainDevice(E.spc, T.make_lu(dtype, 0, 10), None)
            V16 = []
            try:
                scsi = SCSI(pdev, blocksize=512)
                c16.judge_set(pdev, dtype, "plain", V16)
                for k in range(4):
                    m, args, kw = c16.followups(dtype, op["seed"] + k)
                    if m.startswith("!"):
                        continue          # C16's own negative follow-ups
                    getattr(scsi, m)(*args, **kw)
                WORLD.probe("facade_plain_family")
            except BaseException as e:  # noqa
                viol("C19.facade", where_cfg, "type=%02x/%s" % (dtype, type(e).__name__), "the facade works over a plain device object of type %#04x" % dtype, repr(e)[:120])
            for v in V16:
                viol("C19.facade", where_cfg, "type=%02x/%s" % (dtype, v["oracle"]), v["expected"], v["actual"])
            # ... whose errors are its own: what the device raises from execute() reaches the caller as it is
            class DeviceError(Exception):
                pass
            pdev = PlainDevice(E.spc, T.make_lu(dtype, 0, 11), None)
            try:
                scsi = SCSI(pdev, blocksize=512)
                err = DeviceError("transport failed")
                pdev.fail_with = err
                try:
                    scsi.testunitready()
                    viol("C19.facade", where_cfg, "device-error/returned", "the device object's own error reaches the caller", "returned normally")
                except BaseException as e:  # noqa
                    if e is not err:
                        viol("C19.facade", where_cfg, "device-error/" + type(e).__name__, "the device object's own error (DeviceError) reaches the caller", repr(e)[:120])
                    else:
                        WORLD.probe("facade_device_error")
                # re-running the detection on the device the facade already holds leaves it usable, and not closed
                scsi(pdev)
                scsi.testunitready()
                if pdev.closes:
                    viol("C19.facade", where_cfg, "reattach-closed", "s(s.device) does not close the caller's device", "%d close call(s)" % pdev.closes)
            except BaseException as e:  # noqa
                viol("C19.facade", where_cfg, "reattach/%s" % type(e).__name__, "the facade works over a plain device object (re-attach, device error)", repr(e)[:120])
            # ... and as a context manager: an error raised inside the block leaves the block, whatever the device's close() returns
            for ret in (None, True, 1, "closed"):
                pdev = PlainDevice(E.spc, T.make_lu(0, 0, 12), None)
                pdev.close_returns = ret
                marker = DeviceError("raised inside the with block")
                try:
                    with SCSI(pdev, blocksize=512) as s_:
                        s_.testunitready()
                        raise marker
                except BaseException as e:  # noqa
                    if e is not marker:
                        viol("C19.facade", where_cfg, "with/%s" % type(e).__name__, "the error raised inside `with SCSI(dev)` leaves the block", repr(e)[:120])
                    elif pdev.closes != 1:
                        viol("C19.facade", where_cfg, "with/closes=%d" % pdev.closes, "the device is closed once when the block is left", "%d close calls" % pdev.closes)
                    else:
                        WORLD.probe("facade_with_block")
                else:
                    viol("C19.facade", where_cfg, "with/swallowed", "the error raised inside `with SCSI(dev)` leaves the block (close() returned %r)" % (ret,), "the with statement ended normally")
            summary.append("facade")
        elif name == "device":
            s, via = op["s"], op["via"]
            ev0 = len(WORLD.events)
            opens0 = len(WORLD.handles)
            WORLD.armed.clear()
            fired0 = WORLD.fired.get("open_fails", 0)
            if op.get("open_errno"):
                WORLD.arm({"kind": "open_fails", "errno": op["open_errno"]})
            ctx0 = len(WORLD.iscsi_contexts)
            from pyscsi.utils import init_device
            kw = {}
            if via == "init_device":
                if op.get("rw"):
                    kw["read_write"] = True
                if "initiator" in op and op.get("positional"):
                    fn = lambda: init_device(s, bool(op.get("rw")), op["initiator"])
                else:
                    if "initiator" in op:
                        kw["initiator_name"] = op["initiator"]
                    fn = lambda: init_device(s, **kw)
            elif via == "SCSIDevice":
                def fn():
                    from pyscsi.pyscsi.scsi_device import SCSIDevice      # a module that does not import is judged like a failing call
                    return SCSIDevice(s, op.get("rw", False))
            else:
                def fn():
                    from pyscsi.pyiscsi.iscsi_device import ISCSIDevice
                    return ISCSIDevice(s, op["initiator"]) if "initiator" in op else ISCSIDevice(s)
            try:
                dev = fn()
                kind, val = "ok", dev
            except BaseException as e:  # noqa
                kind, val = "exc", e
            evs = [e for e in WORLD.events[ev0:] if e["kind"] != "op"]
            kinds = [e["kind"] for e in evs]
            sg_prefix = isinstance(s, str) and s[:5] == "/dev/"
            is_prefix = isinstance(s, str) and s[:8] == "iscsi://"
            want_sg = sg_prefix and via in ("init_device", "SCSIDevice") and cfg["sgio"]
            want_is = is_prefix and via in ("init_device", "ISCSIDevice") and cfg["iscsi"]
            w = "%s/%s" % (where_cfg, via)
            if not want_sg and not want_is:
                missing = (sg_prefix and via != "ISCSIDevice" and not cfg["sgio"]) or (is_prefix and via != "SCSIDevice" and not cfg["iscsi"])
                cls = "missing-binding" if missing else "other-string"
                if kind == "ok" or not isinstance(val, NotImplementedError):
                    viol("C19.not-refused", w, cls, "NotImplementedError for %r" % s,
                         "returned %r" % type(val).__name__ if kind == "ok" else repr(val)[:100])
                if evs:
                    viol("C19.touched-before-refusal", w, cls, "no file or connection opened for %r" % s, "seam events %s" % kinds)
                if kind == "exc" and isinstance(val, NotImplementedError) and not evs:
                    WORLD.probe("refused_missing_binding" if missing else "refused_other_string")
                summary.append("refused")
                continue
            if want_sg:
                opens = [e for e in evs if e["kind"] == "vfs.open"]
                foreign = [e for e in evs if e["kind"].startswith("iscsi.") or (e["kind"].startswith("vfs.") and e.get("path") not in (s, None))]
                if foreign or len(opens) > 1:
                    viol("C19.wrong-target", w, "sgio", "only %r opened, once" % s, "events %s" % [(e["kind"], e.get("path")) for e in evs])
                if s in SG_OK and op.get("open_errno") and WORLD.fired.get("open_fails", 0) > fired0:
                    # the OS refused the open: the caller must learn about it, and the library must not quietly open something else
                    WORLD.probe("open_refused_by_os")
                    if kind == "ok" or len(opens) != 1:
                        viol("C19.open-error-hidden", w, "sgio", "OSError(errno %d) from the one open(%r) reaches the caller" % (op["open_errno"], s),
                             "%s; opens: %s" % ("returned a device" if kind == "ok" else repr(val)[:60], [(e.get("mode"), e.get("error")) for e in opens]))
                elif s in SG_OK:
                    if kind != "ok" or type(val).__name__ != "SCSIDevice":
                        viol("C19.not-accepted", w, "sgio", "SCSIDevice on %r" % s, repr(val)[:100])
                    else:
                        m = str(opens[0].get("mode")) if opens else ""
                        mode_ok = ("+" in m) if op.get("rw") else not any(c in m for c in "+wax")
                        if len(opens) != 1 or opens[0].get("path") != s or not mode_ok:
                            viol("C19.open", w, "sgio", "one open of %r, %s" % (s, "read-write" if op.get("rw") else "read-only"),
                                 "%s" % [(e.get("path"), e.get("mode")) for e in opens])
                        else:
                            WORLD.probe("accepted_sgio")
                            # ... and used as a context manager it is still that one handle, released when the block is left
                            ev1 = len(WORLD.events)
                            try:
                                with val:
                                    pass
                            except BaseException as e:  # noqa
                                viol("C19.open", w, "with/" + type(e).__name__, "`with device:` works on an accepted device", repr(e)[:100])
                            more = [e for e in WORLD.events[ev1:] if e["kind"] == "vfs.open"]
                            if more:
                                viol("C19.open", w, "with/reopened", "one open of %r for one device object" % s, "%d further open(s) on entering the with block" % len(more))
                elif kind == "ok":
                    viol("C19.phantom-device", w, "sgio", "an OS error: %r does not exist as a device node" % s, "returned a device")
                summary.append("sgio:%s" % kind)
                continue
            # iscsi
            foreign = [e for e in evs if e["kind"].startswith("vfs.")]
            urls = [e for e in evs if e["kind"] == "iscsi.url"]
            conns = [e for e in evs if e["kind"] == "iscsi.connect"]
            ctxs = [e for e in evs if e["kind"] == "iscsi.context"]
            if foreign or any(e.get("url") != s for e in urls) or len(conns) > 1:
                viol("C19.wrong-target", w, "iscsi", "only %r contacted, once" % s, "events %s" % [(e["kind"], e.get("url") or e.get("path")) for e in evs])
            if s in ISCSI_OK:
                if kind != "ok" or type(val).__name__ != "ISCSIDevice":
                    viol("C19.not-accepted", w, "iscsi", "ISCSIDevice on %r" % s, repr(val)[:100])
                else:
                    key = ISCSI_OK[s]
                    c = conns[0] if conns else {}
                    if len(conns) != 1 or (c.get("portal"), c.get("target"), c.get("lun")) != key or not c.get("found"):
                        viol("C19.connect", w, "iscsi", "one connect to %r" % (key,), "%s" % [(e.get("portal"), e.get("target"), e.get("lun")) for e in conns])
                    else:
                        WORLD.probe("accepted_iscsi")
                    ini = ctxs[0].get("initiator") if ctxs else None
                    if op.get("initiator") == "" and via == "init_device":
                        # an explicitly empty name must mean the same through init_device as through the constructor
                        n0 = len(WORLD.iscsi_contexts)
                        k9, v9 = "ok", None
                        try:
                            from pyscsi.pyiscsi.iscsi_device import ISCSIDevice as _I
                            _I(s, "")
                        except BaseException as e9:  # noqa
                            k9 = "exc"
                        ref = WORLD.iscsi_contexts[n0].initiator_name if len(WORLD.iscsi_contexts) > n0 else None
                        if k9 == "ok" and ref != ini:
                            viol("C19.initiator", w, "explicit-empty", "init_device(.., initiator_name='') opens like ISCSIDevice(.., '') (initiator %r)" % ref, repr(ini))
                        else:
                            WORLD.probe("empty_initiator_consistent")
                    if "initiator" in op and op["initiator"]:
                        if ini != op["initiator"]:
                            viol("C19.initiator", w, "explicit", "initiator name %r" % op["initiator"], repr(ini))
                    elif "initiator" not in op and via == "init_device":
                        if not isinstance(ini, str) or cfg["hostname"] not in ini or not ini.startswith("iqn."):
                            viol("C19.initiator", w, "default", "a default iqn initiator name built from the host name %r" % cfg["hostname"], repr(ini))
                        else:
                            WORLD.probe("default_initiator")
            elif kind == "ok":
                viol("C19.phantom-device", w, "iscsi", "an error: %r names no target" % s, "returned a device")
            summary.append("iscsi:%s" % kind)
    out, sigs = [], set()
    for v in V:
        k = (v["oracle"], v["where"], v["detail"])
        if k not in sigs:
            sigs.add(k)
            out.append(v)
    stats = {"events": len(WORLD.events)}
    for k, v in WORLD.probes.items():
        stats["probe." + k] = v
    if not cfg["sgio"]:
        stats["fired.binding_absent_sgio"] = 1
    if not cfg["iscsi"]:
        stats["fired.binding_absent_iscsi"] = 1
    if WORLD.fired.get("binding_unloadable"):
        stats["fired.binding_unloadable"] = WORLD.fired["binding_unloadable"]
    P = WORLD.probes
    nt = (P.get("refused_missing_binding", 0) + P.get("refused_other_string", 0)) > 0 and \
         ((not cfg["sgio"] and not cfg["iscsi"]) or P.get("accepted_sgio", 0) + P.get("accepted_iscsi", 0) > 0)
    return {"digest": WORLD.digest(), "violations": out, "nontrivial": nt, "stats": stats, "summary": summary[:12], "events_tail": WORLD.events[-4:]}


def simplify(prog):
    for i, op in enumerate(prog["ops"]):
        if op.get("rw"):
            c = copy.deepcopy(prog)
            c["ops"][i]["rw"] = False
            yield c
        if "initiator" in op:
            c = copy.deepcopy(prog)
            c["ops"][i].pop("initiator")
            yield c
