"""C13 - each facade call sends exactly one command and decodes what the device
returned.

World: a scripted recording target (dispatch by *expected command*: the
harness tells it which facade method is being called; it decodes the CDB with
that command's T10 layout) behind SG_IO, behind iSCSI and behind a plain
recording device object.  Workload: every facade method x subsets of its
*documented* optional arguments x boundary-biased values x device-provided
buffer contents (a nonce).  Oracle: the event history of one call at the seam
(exactly once, identity of the buffers, order of execute and decode)."""

import copy
import hashlib
import inspect
import json
import random

from sim import facade as F
from sim import worlds
from sim.seams import WORLD, _norm, install, import_pyscsi
from t10 import cdb as C
from t10 import resp as R
from t10 import targets as T

ID = "C13"
LEVEL = "exploration"
COUNTS = {"quick": 6000, "thorough": 600000}
RULE = ("1-4 facade calls per run on one facade object (re-attached between devices; some calls made only as history on a set that does not define the command): method (38) x attached command set that defines it (spc/sbc/ssc/smc/mmc by device type) x device "
        "{plain recording object, SCSIDevice, ISCSIDevice} x subset of the documented optional keyword arguments x boundary-biased "
        "values x nonce in the device-provided data; enumerated: every method x every defining set x {no optionals, each single "
        "optional, all optionals} on the plain device. Non-trivial = the command reached the device and the call returned; "
        "distinct = event digest")
ENUMERATED_NOTE = "38 methods x defining command sets x {no optional argument, each documented optional alone, all of them}"
COMPONENTS = {"real": ["SCSI facade (all 38 methods)", "all command classes", "get_opcode", "SCSICommand.unmarshall", "SCSIDevice/ISCSIDevice.execute"],
              "stubs": ["sgio module", "iscsi module", "virtual /dev", "plain recording device object (MockDevice shape)"],
              "simulated_peers": ["scripted recording LU decoding CDBs with t10/cdb.py layouts and answering with t10/resp.py encoders + nonce"]}
ASSUMPTIONS = [
    "argument names and integer defaults ('name = N, ...') are read at check time from the docstrings of scsi.py",
    "'a default reaches the CDB' is checked twice: the field holds the default the facade docstring states, and the default of the command class constructor's signature (inspect; skipped if not introspectable)",
    "the opcode is compared with the attached command set's own entry (its T10-correctness is C14, not claimed)",
    "whether decoded *values* are right is C04; here cmd.result must equal the class's own unmarshall_datain of the final buffer and differ from that of the untouched buffer",
]
REQUIRED_PROBES = ["plain", "sgio", "iscsi", "decode_after_execute", "all_optionals", "no_optionals", "reattached", "history_call", "faulted_call", "documented_default_ok", "plain_device_raises"]

SET_TYPE = {"spc": 3, "sbc": 0, "ssc": 1, "smc": 8, "mmc": 5}


def setup(repo):
    install()
    import_pyscsi(repo)


# ---- documented interface ---------------------------------------------------
# method -> dict(t10=layout name, opname=name in the command set or ('sa', suffix, sa value),
#                pos=[(doc name, t10 field, bits)], opt={doc name: (t10 field, bits)}, special=...)
def _rw(t10, prot):
    bits = 64 if t10.endswith("16") else 32
    tlb = 16 if t10.endswith("10") else 32
    opt = {prot: (prot, 3), "dpo": ("dpo", 1), "fua": ("fua", 1), "group": ("group", 5)}
    if prot == "rdprotect":
        opt["rarc"] = ("rarc", 1)
    return dict(t10=t10, opname=t10, pos=[("lba", "lba", bits), ("tl", "tl", tlb)], opt=opt)


API = {
    "exchangemedium": dict(t10="EXCHANGE_MEDIUM", opname="EXCHANGE_MEDIUM",
                           pos=[("xfer", "xfer", 16), ("source", "source", 16), ("dest1", "dest1", 16), ("dest2", "dest2", 16)],
                           opt={"inv1": ("inv1", 1), "inv2": ("inv2", 1)}),
    "getlbastatus": dict(t10="GET_LBA_STATUS", opname=("sa", "9E", 0x12), pos=[("lba", "lba", 64)], opt={"alloclen": ("alloc", 15)}),
    "inquiry": dict(t10="INQUIRY", opname="INQUIRY", pos=[], opt={"evpd": ("evpd", 1), "page_code": ("page_code", 8), "alloclen": ("alloc", 15)}),
    "initializeelementstatus": dict(t10="INITIALIZE_ELEMENT_STATUS", opname="INITIALIZE_ELEMENT_STATUS", pos=[], opt={}),
    "initializeelementstatuswithrange": dict(t10="INITIALIZE_ELEMENT_STATUS_WITH_RANGE", opname="INITIALIZE_ELEMENT_STATUS_WITH_RANGE",
                                             pos=[("xfer", "xfer", 16), ("elements", "elements", 16)], opt={"rng": ("range", 1), "fast": ("fast", 1)}),
    "modeselect6": dict(t10="MODE_SELECT_6", opname="MODE_SELECT_6", pos=[("data", None, 0)], opt={"pf": ("pf", 1), "sp": ("sp", 1)}, plist=True),
    "modeselect10": dict(t10="MODE_SELECT_10", opname="MODE_SELECT_10", pos=[("data", None, 0)], opt={"pf": ("pf", 1), "sp": ("sp", 1)}, plist=True),
    "modesense6": dict(t10="MODE_SENSE_6", opname="MODE_SENSE_6", pos=[("page_code", "page_code", 6)],
                       opt={"sub_page_code": ("sub_page_code", 8), "dbd": ("dbd", 1), "pc": ("pc", 2), "alloclen": ("alloc", 8)}),
    "modesense10": dict(t10="MODE_SENSE_10", opname="MODE_SENSE_10", pos=[("page_code", "page_code", 6)],
                        opt={"llbaa": ("llbaa", 1), "dbd": ("dbd", 1), "pc": ("pc", 2), "alloclen": ("alloc", 15)}),
    "opencloseimportexportelement": dict(t10="OPEN_CLOSE_IMPORT_EXPORT_ELEMENT", opname="OPEN_CLOSE_IMPORT_EXPORT_ELEMENT",
                                         pos=[("xfer", "xfer", 16), ("acode", "acode", 5)], opt={}),
    "positiontoelement": dict(t10="POSITION_TO_ELEMENT", opname="POSITION_TO_ELEMENT", pos=[("xfer", "xfer", 16), ("dest", "dest", 16)], opt={"invert": ("invert", 1)}),
    "preventallowmediumremoval": dict(t10="PREVENT_ALLOW_MEDIUM_REMOVAL", opname="PREVENT_ALLOW_MEDIUM_REMOVAL", pos=[], opt={"prevent": ("prevent", 2)}),
    "read10": _rw("READ_10", "rdprotect"), "read12": _rw("READ_12", "rdprotect"), "read16": _rw("READ_16", "rdprotect"),
    "write10": _rw("WRITE_10", "wrprotect"), "write12": _rw("WRITE_12", "wrprotect"), "write16": _rw("WRITE_16", "wrprotect"),
    "readcapacity10": dict(t10="READ_CAPACITY_10", opname="READ_CAPACITY_10", pos=[], opt={"alloclen": (None, 6)}),
    "readcapacity16": dict(t10="READ_CAPACITY_16", opname=("sa", "9E", 0x10), pos=[], opt={"alloclen": ("alloc", 12)}),
    "readcd": dict(t10="READ_CD", opname="READ_CD", pos=[("lba", "lba", 32), ("tl", "tl", 2)],
                   opt={"est": ("est", 3), "dap": ("dap", 1), "mcsb": ("mcsb", 5), "c2ei": ("c2ei", 2), "scsb": ("scsb", 3)}),
    "readdiscinformation": dict(t10="READ_DISC_INFORMATION", opname="READ_DISC_INFORMATION", pos=[("data_type", "data_type", 3)], opt={"alloc_len": ("alloc", 13)}),
    "readelementstatus": dict(t10="READ_ELEMENT_STATUS", opname="READ_ELEMENT_STATUS", pos=[("start", "start", 16), ("num", "num", 16)],
                              opt={"element_type": ("element_type", 3), "voltag": ("voltag", 1), "curdata": ("curdata", 1), "dvcid": ("dvcid", 1), "alloclen": ("alloc", 15)}),
    "movemedium": dict(t10="MOVE_MEDIUM", opname="MOVE_MEDIUM", pos=[("xfer", "xfer", 16), ("source", "source", 16), ("dest", "dest", 16)], opt={"invert": ("invert", 1)}),
    "synchronizecache10": dict(t10="SYNCHRONIZE_CACHE_10", opname="SYNCHRONIZE_CACHE_10", pos=[("lba", "lba", 32), ("numblks", "numblks", 16)], opt={"immed": ("immed", 1), "group": ("group", 5)}),
    "synchronizecache16": dict(t10="SYNCHRONIZE_CACHE_16", opname="SYNCHRONIZE_CACHE_16", pos=[("lba", "lba", 64), ("numblks", "numblks", 32)], opt={"immed": ("immed", 1), "group": ("group", 5)}),
    "testunitready": dict(t10="TEST_UNIT_READY", opname="TEST_UNIT_READY", pos=[], opt={}),
    "writesame10": dict(t10="WRITE_SAME_10", opname="WRITE_SAME_10", pos=[("lba", "lba", 32), ("nb", "nb", 16)],
                        opt={"wrprotect": ("wrprotect", 3), "anchor": ("anchor", 1), "unmap": ("unmap", 1), "group": ("group", 5)}),
    "writesame16": dict(t10="WRITE_SAME_16", opname="WRITE_SAME_16", pos=[("lba", "lba", 64), ("nb", "nb", 32)],
                        opt={"wrprotect": ("wrprotect", 3), "anchor": ("anchor", 1), "unmap": ("unmap", 1), "ndob": ("ndob", 1), "group": ("group", 5)}),
    "reportluns": dict(t10="REPORT_LUNS", opname="REPORT_LUNS", pos=[], opt={"report": ("select_report", 8), "alloclen": ("alloc", 15)}),
    "reportpriority": dict(t10="REPORT_PRIORITY", opname=("sa", "A3", 0x0E), pos=[], opt={"priority": ("priority", 2), "alloclen": ("alloc", 15)}),
    "reporttargetportgroups": dict(t10="REPORT_TARGET_PORT_GROUPS", opname=("sa", "A3", 0x0A), pos=[], opt={"data_format": ("data_format", 3), "alloclen": ("alloc", 15)}),
    "atapassthrough12": dict(t10="ATA_PASS_THROUGH_12", opname="ATA_PASS_THROUGH_12", ata=12,
                             pos=[("protocal", "protocol", 4), ("t_length", "t_length", 2), ("byte_block", "byte_block", 1), ("t_dir", "t_dir", 1),
                                  ("t_type", "t_type", 1), ("off_line", "off_line", 2), ("fetures", "features", 8), ("count", "count", 8),
                                  ("lba", "ATA_LBA", 24), ("command", "command", 8)],
                             opt={"ck_cond": ("ck_cond", 1), "device": ("device", 8), "control": ("control", 8), "blocksize": (None, 0), "extra_tl": (None, 0), "data": (None, 0)}),
    "atapassthrough16": dict(t10="ATA_PASS_THROUGH_16", opname="ATA_PASS_THROUGH_16", ata=16,
                             pos=[("protocal", "protocol", 4), ("t_length", "t_length", 2), ("byte_block", "byte_block", 1), ("t_dir", "t_dir", 1),
                                  ("t_type", "t_type", 1), ("off_line", "off_line", 2), ("fetures", "features", 16), ("count", "count", 16),
                                  ("lba", "ATA_LBA", 48), ("command", "command", 8)],
                             opt={"ck_cond": ("ck_cond", 1), "device": ("device", 8), "control": ("control", 8), "extend": ("extend", 1), "blocksize": (None, 0), "extra_tl": (None, 0), "data": (None, 0)}),
    "persistentreservein": dict(t10="PERSISTENT_RESERVE_IN", opname="PERSISTENT_RESERVE_IN", pos=[("service_action", "service_action", 2)], opt={"alloclen": ("alloc", 15)}),
    "persistentreserveout": dict(t10="PERSISTENT_RESERVE_OUT", opname="PERSISTENT_RESERVE_OUT", pos=[("service_action", "service_action", 3)],
                                 opt={"scope": ("scope", 4), "pr_type": ("pr_type", 4)}, plist=True, extra_kw="prout"),
    "extendedcopy4": dict(t10="EXTENDED_COPY", opname="EXTENDED_COPY", pos=[], opt={}, plist=True, extra_kw="xcopy4"),
    "extendedcopy5": dict(t10="EXTENDED_COPY", opname="EXTENDED_COPY", pos=[], opt={}, plist=True, extra_kw="xcopy5"),
}
assert len(API) == 38
METHODS = sorted(API)
BS_METHODS = {"read10", "read12", "read16", "write10", "write12", "write16", "writesame10", "writesame16"}
DATA_ARG = {"write10", "write12", "write16", "writesame10", "writesame16"}


def defining_sets(method):
    import pyscsi.pyscsi.scsi_enum_command as E
    spec = API[method]["opname"]
    out = []
    for s in ("spc", "sbc", "ssc", "smc", "mmc"):
        enum = getattr(E, s)
        if isinstance(spec, tuple):
            if any(k.endswith(spec[1]) for k in enum.keys):
                out.append(s)
        elif spec in enum.keys:
            out.append(s)
    return out


ALIAS = {"alloc_len": "alloclen", "range": "rng", "c2e1": "c2ei"}
_DOC = {}
_DOCDEF = {}


def documented_defaults(method):
    """{canonical optional name: integer default the facade docstring states ('name = N, ...')}"""
    if method in _DOCDEF:
        return _DOCDEF[method]
    import re
    from pyscsi.pyscsi.scsi import SCSI
    out = {}
    inblk = False
    opt = API[method]["opt"]
    for line in (getattr(SCSI, method).__doc__ or "").splitlines():
        if ":param kwargs:" in line:
            inblk = True
            line = " " + line.split(":param kwargs:", 1)[1]
        elif inblk and (":param" in line or ":return" in line):
            inblk = False
        if inblk:
            mm = re.match(r"^\s+([A-Za-z_][A-Za-z_0-9]*)\s*=\s*(0x[0-9a-fA-F]+|\d+)\b", line)
            if mm:
                n = mm.group(1)
                c = n if n in opt else ALIAS.get(n, n)
                if c in opt:
                    out[c] = int(mm.group(2), 0)
    _DOCDEF[method] = out
    return out


def documented_optionals(method):
    """{documented spelling: canonical key in API[method]['opt']}: keyword names
    read at check time from the facade method's docstring (':param kwargs:'
    block) and its signature"""
    if method in _DOC:
        return _DOC[method]
    import re
    from pyscsi.pyscsi.scsi import SCSI
    fn = getattr(SCSI, method)
    names = []
    inblk = False
    for line in (fn.__doc__ or "").splitlines():
        if ":param kwargs:" in line:
            inblk = True
            line = " " + line.split(":param kwargs:", 1)[1]
        elif inblk and (":param" in line or ":return" in line):
            inblk = False
        if inblk:
            mm = re.match(r"^\s+([A-Za-z_][A-Za-z_0-9]*)\s*(=|,|:)", line)
            if mm:
                names.append(mm.group(1))
    try:
        sig = inspect.signature(fn)
        names += [n for n, p in sig.parameters.items() if p.default is not inspect.Parameter.empty]
    except (TypeError, ValueError):
        pass
    opt = API[method]["opt"]
    out = {}
    for n in names:
        c = ALIAS.get(n, n)
        if n in opt:
            out[n] = n
        elif c in opt and c not in out.values():
            out[n] = c
    _DOC[method] = out
    return out


_SETS = {}


def sets_of(method):
    if method not in _SETS:
        _SETS[method] = defining_sets(method)
    return _SETS[method]


# ---- program generation -----------------------------------------------------
def gen_value(rng, bits):
    if bits <= 0:
        return 0
    return F.biased(rng, bits)


def gen_args(rng, method, subset=None):
    a = API[method]
    pos = {}
    for name, field, bits in a["pos"]:
        pos[name] = gen_value(rng, bits) if field is not None else None
    if method in ("read10", "read12", "read16", "write10", "write12", "write16"):
        pos["tl"] = rng.choice([0, 1, 2, 3])
    if method.startswith("writesame"):
        pass
    if method == "persistentreservein":
        pos["service_action"] = rng.randrange(4)
    if method == "persistentreserveout":
        pos["service_action"] = rng.choice([0, 1, 2, 3, 4, 5, 6, 7])
    if method == "readdiscinformation":
        pos["data_type"] = rng.randrange(3)
    if method.startswith("atapassthrough"):
        pos["t_length"] = rng.choice([0, 1, 2, 3])
        if pos["t_length"] == 1:
            pos["fetures"] = rng.choice([0, 1, 2])
        if pos["t_length"] == 2:
            pos["count"] = rng.choice([0, 1, 2])
    doc = documented_optionals(method)
    names = sorted(doc)
    if subset is None:
        if len(names) <= 6 and rng.random() < 0.5:
            mask = rng.randrange(1 << len(names))
            subset = [n for i, n in enumerate(names) if mask >> i & 1]
        else:
            subset = [n for n in names if rng.random() < rng.choice([0.1, 0.5, 0.9])]
    kw = {}
    for n in subset:
        if doc[n] == "data":
            continue
        field, bits = a["opt"][doc[n]]
        if doc[n] in ("alloclen", "alloc_len"):
            kw[n] = rng.choice([0, 4, 8, 24, 36, 96, 255]) if bits <= 8 else rng.choice([0, 4, 8, 24, 36, 96, 255, 256, 1024, (1 << bits) - 1])
            if method == "readcapacity10":
                kw[n] = rng.choice([8, 8, 16, 0])
        elif doc[n] == "blocksize":
            kw[n] = rng.choice([512, 520, 4096])
        elif doc[n] == "extra_tl":
            kw[n] = rng.choice([0, 1, 2])
        elif doc[n] == "est":
            kw[n] = rng.choice([1, 2, 3, 4, 5])
        elif doc[n] == "mcsb":
            kw[n] = rng.choice([0x02, 0x06, 0x16, 0x0A, 0x1F, 0x00, 0x03])
        elif doc[n] == "c2ei":
            kw[n] = rng.choice([0, 1, 2])
        elif doc[n] == "scsb":
            kw[n] = rng.choice([0, 2, 4])
        elif doc[n] == "element_type":
            kw[n] = rng.randrange(5)
        elif doc[n] == "data_format":
            kw[n] = rng.randrange(2)
        else:
            kw[n] = gen_value(rng, bits)
    extra = a.get("extra_kw")
    if extra == "prout":
        c = F.g_prout(rng, None)[1]
        for k in ("scope", "pr_type"):
            c.pop(k, None)
        kw.update(c)
    elif extra == "xcopy4":
        kw.update(F.g_xcopy4(rng, None)[1])
    elif extra == "xcopy5":
        kw.update(F.g_xcopy5(rng, None)[1])
    if method in ("modeselect6", "modeselect10"):
        pos["data"] = F.g_modeselect(rng, None)[0][0]
    if method.startswith("atapassthrough") and "data" in doc and rng.random() < 0.4:
        # the documented data= argument: the caller's own buffer (any writable bytes-like object) for the data phase
        kw["data"] = {"$buffer": rng.choice(["bytearray", "bytearray", "memoryview", "array"]), "n": rng.choice([512, 512, 16, 1024])}
    if method.startswith("atapassthrough"):
        need_bs = pos["byte_block"] and pos["t_type"] and pos["t_length"]
        if need_bs and not kw.get("blocksize"):
            kw["blocksize"] = 512
    return pos, kw


def gen_one(rng, method=None, setname=None):
    method = method or rng.choice(METHODS)
    pos, kw = gen_args(rng, method)
    op = {"cfg": {"method": method, "set": setname or rng.choice(sets_of(method)), "device": rng.choice(["plain", "plain", "sgio", "iscsi"]),
                  "blocksize": rng.choice([512, 512, 1, 4096]), "nonce": rng.randrange(1 << 32) & (~0xF if rng.random() < 0.08 else ~0)},
          "pos": pos, "kw": kw, "reattach": rng.random() < 0.6}
    if op["cfg"]["device"] == "plain" and rng.random() < 0.1:
        # an application-defined device object fails in its own way (after it took the command): still handed over exactly once
        op["fault"] = {"kind": "device_raises", "exc": rng.choice(["TypeError", "RuntimeError", "OSError", "ValueError", "AttributeError", "KeyError"])}
    if op["cfg"]["device"] != "plain" and rng.random() < 0.2:
        # the device fails this command: it must still have been handed over exactly once
        op["fault"] = rng.choice([{"kind": "status", "byte": 2, "sense": "70000600000000000a00000000290000000000"},
                                  {"kind": "status", "byte": 8}, {"kind": "status", "byte": 0x18},
                                  {"kind": "sense_payload", "sense": "", "no_sense": True}, {"kind": "ioctl_error", "errno": 5}])
    return op


def generate(rng, idx, tier):
    n = rng.choice([1, 1, 1, 2, 3, 4])
    ops = []
    for _ in range(n):
        if n > 1 and rng.random() < 0.25:
            # history: a command invoked on a command set that does not define it (expected to fail somehow; not judged)
            m = rng.choice(METHODS)
            others = [s_ for s_ in ("spc", "sbc", "ssc", "smc", "mmc") if s_ not in sets_of(m)]
            if others:
                op = gen_one(rng, m, rng.choice(others))
                op["judged"] = False
                ops.append(op)
                continue
        op = gen_one(rng)
        if rng.random() < 0.15:
            # the application looks at the device once more before the call (a standard INQUIRY through the same facade, answered
            # with whatever the history script returns - possibly nothing): commands do not re-select the command set
            pre = gen_one(rng, "inquiry", op["cfg"]["set"])
            pre["cfg"]["device"], pre["cfg"]["blocksize"] = op["cfg"]["device"], op["cfg"]["blocksize"]
            pre["kw"] = {k: v for k, v in pre["kw"].items() if k == "alloclen"}
            pre["judged"] = False
            ops.append(pre)
            op["reattach"] = True
        ops.append(op)
    return {"property": ID, "config": ops[-1]["cfg"], "ops": ops}


_ENUM = None


def _enum():
    global _ENUM
    if _ENUM is None:
        out = []
        for m in METHODS:
            names = sorted(documented_optionals(m))
            variants = [[]] + [[n] for n in names] + ([names] if len(names) > 1 else [])
            for s in sets_of(m):
                for v in variants:
                    out.append((m, s, v))
        _ENUM = out
    return _ENUM


def enumerated_count(tier):
    return len(_enum())


def enumerated(k, tier):
    m, s, subset = _enum()[k]
    rng = random.Random(k * 31337 + 11)
    pos, kw = gen_args(rng, m, subset=subset)
    return {"property": ID, "config": {"method": m, "set": s, "device": ["plain", "sgio", "iscsi"][k % 3] if tier == "thorough" else "plain",
                                       "blocksize": 512, "nonce": k + 1},
            "ops": [{"pos": pos, "kw": kw}]}


# ---- scripted target ----------------------------------------------------------
class ScriptedLU(T.GenericLU):
    """Answers the attach INQUIRY like a generic LU of its type; for the
    command under test it records what arrived and returns scripted data."""

    def __init__(self, dev_type):
        super().__init__(dev_type, 0, 1)
        self.script = None
        self.arrivals = []

    def execute(self, cdb, dataout=b"", xfer_in=0):
        if self.script is None:
            return super().execute(cdb, dataout, xfer_in)
        self.arrivals.append({"cdb": bytes(cdb), "dataout": bytes(dataout or b""), "xfer_in": xfer_in})
        return (0, b"", self.script(bytes(cdb), bytes(dataout or b""), xfer_in))


class PlainDevice:
    """the MockDevice shape: an object with .opcodes and .execute"""

    def __init__(self, opcodes, lu, devicetype):
        self.opcodes = opcodes
        self.devicetype = devicetype
        self.lu = lu
        self.calls = []

    def execute(self, cmd, en_raw_sense=False):
        self.calls.append(cmd)
        if self.fail_with is not None:
            e, self.fail_with = self.fail_with, None
            raise e
        din = cmd.datain
        WORLD.ev("plain.cmd", cdb=cmd.cdb, outlen=len(cmd.dataout) if cmd.dataout is not None else None, inlen=len(din) if din is not None else None)
        WORLD.deliveries.append({"transport": "plain", "status": 0, "cdb": bytes(cmd.cdb), "cmd": cmd,
                                 "cdb_obj": cmd.cdb, "data_in_obj": cmd.datain, "data_out_obj": cmd.dataout,
                                 "dataout": bytes(cmd.dataout) if cmd.dataout is not None else b""})
        status, sense, datain = self.lu.execute(bytes(cmd.cdb), bytes(cmd.dataout) if cmd.dataout is not None else b"", len(din) if din is not None else 0)
        if din is not None:
            n = min(len(datain), len(din))
            memoryview(din)[:n] = datain[:n]

    closes = 0
    close_returns = None      # what this application-defined device's close() returns (a status, a flag ...): nobody's business
    fail_with = None          # an exception instance the next execute raises (the device's own error type)

    def open(self):
        pass

    def close(self):
        self.closes += 1
        return self.close_returns


def nonce_bytes(nonce, n):
    return bytes(F.pattern(nonce, n))


def response_for(method, f, cdb, nonce, xfer_in, dev_type):
    """well-formed data-in for the command (T10 encoders), varied by the nonce"""
    r = random.Random(nonce)
    if method == "inquiry":
        if not f["evpd"]:
            return R.std_inquiry(dev_type, vendor="N%07d" % (nonce % 10**7), product="P%d" % nonce, revision="%04d" % (nonce % 10**4))
        pc = f["page_code"]
        if pc == 0x00:
            return R.vpd_supported(dev_type, [0, 0x80, 0x83, nonce % 200 + 1])
        if pc == 0x80:
            return R.vpd_serial(dev_type, "SER%d" % nonce)
        if pc == 0x83:
            return R.vpd_device_id(dev_type, [R.designation_descriptor(1, 0, 3, R.naa6(nonce & 0xFFFFFF, 5, nonce)),
                                              R.designation_descriptor(1, 1, 4, R.be(nonce & 0xFFFF, 4), piv=1, proto=6)])
        if pc == 0xB0:
            return R.vpd_block_limits(dev_type, max_xfer=nonce & 0xFFFFFFFF, opt_xfer=r.randrange(1 << 32), max_ws=r.randrange(1 << 32))
        if pc == 0xB1:
            return R.vpd_block_dev_char(dev_type, rotation=nonce & 0xFFFF, form_factor=r.randrange(6))
        if pc == 0xB2:
            return R.vpd_lbp(dev_type, threshold_exponent=nonce & 0xFF, lbpu=1, provisioning_type=r.randrange(3))
        if pc == 0x86:
            return R.vpd_extended_inquiry(dev_type, b4=nonce & 0xFF, b5=r.randrange(64), b6=r.randrange(16))
        if pc == 0xB3:
            return R.vpd_referrals(dev_type, nonce & 0xFFFFFFFF, r.randrange(1 << 32))
        if pc == 0x89:
            return R.vpd_ata_information(dev_type, vendor="A%d" % (nonce % 999))
        return R.vpd(dev_type, pc, nonce_bytes(nonce, 12))
    if method == "modesense6":
        return R.mode_sense6([R.control_page(swp=nonce & 1, busy_timeout=nonce & 0xFFFF)], medium_type=r.randrange(256))
    if method == "modesense10":
        return R.mode_sense10([R.disconnect_reconnect_page(max_burst=nonce & 0xFFFF, first_burst=r.randrange(1 << 16))], medium_type=r.randrange(256))
    if method == "readcapacity10":
        return R.read_capacity10(nonce & 0xFFFFFFFF, 512 << r.randrange(4))
    if method == "readcapacity16":
        return R.read_capacity16((nonce << 20) | r.randrange(1 << 20), 512 << r.randrange(4), lbpme=r.randrange(2), lbppbe=r.randrange(8))
    if method == "getlbastatus":
        return R.get_lba_status([(nonce + i * 100, r.randrange(1, 100), r.randrange(3)) for i in range(r.randrange(1, 4))])
    if method == "reportluns":
        return R.report_luns([(nonce << 16) | i for i in range(r.randrange(1, 5))])
    if method == "reporttargetportgroups":
        return R.rtpg([dict(aas=r.randrange(4), tpg=nonce & 0xFFFF, support=0x8F, ports=[1, 2][:r.randrange(1, 3)])], extended=bool(f.get("data_format") == 1), implicit_time=nonce & 0xFF)
    if method == "reportpriority":
        return R.report_priority([(nonce & 0xF, nonce & 0xFFFF, R.transport_id_sas(nonce_bytes(nonce, 8)))])
    if method == "persistentreservein":
        sa = f["service_action"]
        if sa == 0:
            return R.pr_read_keys(nonce & 0xFFFFFFFF, [r.randrange(1 << 64) for _ in range(r.randrange(1, 4))])
        if sa == 1:
            return R.pr_read_reservation(nonce & 0xFFFFFFFF, (r.randrange(1 << 64), 0, r.choice([1, 3, 5, 6])))
        if sa == 2:
            return R.pr_report_capabilities(ptpl_a=nonce & 1, type_mask=0xEA01)
        return R.pr_read_full_status(nonce & 0xFFFFFFFF, [dict(key=r.randrange(1 << 64), holder=1, type=3, rtpi=nonce & 0xFFFF,
                                                               tid=R.transport_id_iscsi("iqn.2026-10.verif:n%d" % nonce))])
    if method == "readelementstatus":
        return R.read_element_status(nonce & 0xFFFF, 2, [R.element_status_page(2, [R.element_descriptor((nonce + i) & 0xFFFF, full=i & 1, src=r.randrange(1 << 16)) for i in range(2)])])
    if method == "readdiscinformation":
        dt = f["data_type"]
        if dt == 0:
            return R.disc_information_standard(sessions=nonce & 0xFFFF, disc_id=nonce & 0xFFFFFFFF)
        if dt == 1:
            return R.disc_information_track_resources(max_tracks=nonce & 0xFFFF)
        return R.disc_information_pow(rem_repl=nonce & 0xFFFFFFFF)
    # raw data commands: READ, READ CD, ATA data-in
    return nonce_bytes(nonce, xfer_in)


def canon(v):
    return hashlib.sha256(json.dumps(_norm(v), sort_keys=True).encode()).hexdigest()[:20]


def ctor_defaults(cmd):
    try:
        sig = inspect.signature(type(cmd).__init__)
    except (TypeError, ValueError):
        return {}
    return {n: p.default for n, p in sig.parameters.items() if p.default is not inspect.Parameter.empty}


def decode_kwargs(method, pos, kw):
    """keyword arguments of the class's unmarshall_datain for the arguments in effect, defaults spelled out"""
    if method == "inquiry":
        return {"evpd": kw.get("evpd", 0)}
    if method == "readcd":
        return {"lba": pos["lba"], "tl": pos["tl"], "est": kw.get("est", 0), "dap": kw.get("dap", 0), "mcsb": kw.get("mcsb", 0),
                "c2ei": kw.get("c2ei", kw.get("c2e1", 0)), "scsb": kw.get("scsb", 0)}
    return {}


def _device_for(ctx, device, setname):
    """one device object per (kind, command set) and run; attached through the facade (re-attach when it changes)"""
    import pyscsi.pyscsi.scsi_enum_command as E
    SCSI, SCSIDevice, ISCSIDevice = worlds.lib()
    key = (device, setname)
    if key not in ctx["devs"]:
        dev_type = SET_TYPE[setname]
        lu = ScriptedLU(dev_type)
        handed = []
        if device == "plain":
            dev = PlainDevice(getattr(E, setname), lu, dev_type)
        elif device == "sgio":
            path = "/dev/sg_%s" % setname
            WORLD.plug(path, lu)
            dev = SCSIDevice(path)
        else:
            k = ("10.0.0.1:3260", "iqn.2026-10.verif:%s" % setname, 0)
            WORLD.iscsi_targets[k] = lu
            dev = ISCSIDevice("iscsi://%s/%s/0" % (k[0], k[1]), "iqn.2026-10.verif:init")
        if device != "plain":
            # tap the public execute() of the device object so the command handed over is known for every transport
            orig_execute = dev.execute

            def tapped(cmd, *a_, **k_):
                handed.append({"cmd": cmd, "cdb_obj": cmd.cdb, "data_in_obj": cmd.datain, "data_out_obj": cmd.dataout})
                return orig_execute(cmd, *a_, **k_)
            dev.execute = tapped
        ctx["devs"][key] = (dev, lu, handed)
    return ctx["devs"][key]


def execute(prog):
    WORLD.reset()
    ctx = {"devs": {}, "scsi": None, "dev": None}
    V, summaries, nontrivial = [], [], False
    for n, op in enumerate(prog["ops"]):
        cfg = op.get("cfg") or prog["config"]
        WORLD.ev("call", n=n, method=cfg["method"], set=cfg["set"], device=cfg["device"], judged=op.get("judged", True))
        v, summ, nt = _one_call(cfg, op, ctx)
        V += v
        summaries.append(summ)
        nontrivial = nontrivial or nt
    stats = {"events": len(WORLD.events)}
    for k, val in WORLD.probes.items():
        stats["probe." + k] = val
    out, sigs = [], set()
    for v in V:
        k = (v["oracle"], v["where"], v["detail"])
        if k not in sigs:
            sigs.add(k)
            out.append(v)
    return {"digest": WORLD.digest(), "violations": out, "nontrivial": nontrivial, "stats": stats,
            "summary": summaries[0] if len(summaries) == 1 else summaries, "events_tail": WORLD.events[-4:]}


def _buffers(kw):
    import array
    d = kw.get("data")
    if isinstance(d, dict) and "$buffer" in d:
        raw = bytearray(F.pattern(7, d["n"]))
        kw["data"] = raw if d["$buffer"] == "bytearray" else memoryview(raw) if d["$buffer"] == "memoryview" else array.array("B", raw)
        WORLD.probe("caller_buffer_" + d["$buffer"])
    return kw


def _one_call(cfg, op, ctx):
    import pyscsi.pyscsi.scsi_enum_command as E
    SCSI, SCSIDevice, ISCSIDevice = worlds.lib()
    method, setname, device = cfg["method"], cfg["set"], cfg["device"]
    a = API[method]
    pos, kw = copy.deepcopy(op["pos"]), _buffers(F.real_args(copy.deepcopy(op["kw"])))
    dev_type = SET_TYPE[setname]
    dev, lu, handed = _device_for(ctx, device, setname)
    del handed[:]
    V = []
    where = "%s/%s" % (method, setname)
    attached_now = False
    if ctx["scsi"] is None or (ctx["dev"] is not dev and not op.get("reattach")):
        ctx["scsi"] = SCSI(dev, blocksize=cfg["blocksize"])
        attached_now = True
    elif ctx["dev"] is not dev:
        ctx["scsi"](dev)
        WORLD.probe("reattached")
        attached_now = True
    ctx["dev"] = dev
    sets = ctx.setdefault("set_at_attach", {})
    if attached_now or id(dev) not in sets:
        sets[id(dev)] = dev.opcodes           # the command set the attach selected for this device
    scsi = ctx["scsi"]
    scsi.blocksize = cfg["blocksize"]
    WORLD.probe(device)
    if dev.opcodes is not sets[id(dev)]:
        # between the attach and this call only facade commands were made: none of them may replace the device's command set
        V.append(dict(oracle="C13.command-set-replaced", where=where, detail="after-attach",
                      expected="the command set selected when the device was attached (%s) is still the device's" % setname,
                      actual="device.opcodes was replaced by an earlier facade call of this history"))
        dev.opcodes = sets[id(dev)]
    if op.get("judged", True) is False:
        # a call made only to create history (e.g. a command this set does not define): any outcome, nothing judged
        lu.script = lambda cdb, dataout, xfer_in: bytes(xfer_in)
        args0 = [F.real_args(pos[name]) if name == "data" else pos[name] for name, field, bits in a["pos"]]
        if method in DATA_ARG:
            args0.append(F.pattern(1, cfg["blocksize"] * (pos.get("tl", 1) if "tl" in pos else 1)))
        k0, v0 = worlds.outcome_of(lambda: getattr(scsi, method)(*args0, **kw))
        lu.script = None
        del handed[:]
        WORLD.probe("history_call")
        return V, {"outcome": "history:%s" % ("ok" if k0 == "ok" else type(v0).__name__)}, False
    if dev.opcodes is not getattr(E, setname):
        # the attach did not select the set this run wants to exercise: that is C16's business, nothing to judge here
        WORLD.probe("attach_selected_other_set")
        return [], {"outcome": "skipped"}, False
    # positional arguments in documented order
    args = []
    for name, field, bits in a["pos"]:
        if name == "data":
            args.append(F.real_args(pos["data"]))
        else:
            args.append(pos[name])
    bs = cfg["blocksize"]
    if method in DATA_ARG:
        n = bs * (pos["tl"] if "tl" in pos else 1)
        args.append(None if kw.get("ndob") else F.pattern(cfg["nonce"] ^ 0x5A5A, n))
    nonce = cfg["nonce"]
    t10 = a["t10"]

    def script(cdb, dataout, xfer_in):
        if nonce % 16 == 0:
            WORLD.probe("all_zero_answer")
            return bytes(max(xfer_in, 0))     # a legal answer may consist of zero bytes only (no keys registered, empty lists, LBA 0 ...)
        f = C.decode(t10, cdb) if len(cdb) == (C.cdb_len(C.LAYOUTS[t10]["opcode"]) or 0) else {}
        return response_for(method, f, cdb, nonce, xfer_in, dev_type)[:max(xfer_in, 0)]

    lu.script = script
    del handed[:]
    WORLD.armed.clear()
    if op.get("fault") and device != "plain":
        WORLD.arm(op["fault"])
        WORLD.probe("faulted_call")
    if op.get("fault") and device == "plain" and op["fault"].get("kind") == "device_raises":
        dev.fail_with = {"TypeError": TypeError, "RuntimeError": RuntimeError, "OSError": OSError, "ValueError": ValueError,
                         "AttributeError": AttributeError, "KeyError": KeyError}[op["fault"]["exc"]]("the device object's own failure")
        calls0 = len(dev.calls)
        WORLD.probe("plain_device_raises")
    mark = len(WORLD.deliveries)
    n_ev = len(WORLD.events)
    kind, val = worlds.outcome_of(lambda: getattr(scsi, method)(*args, **kw))
    dl = WORLD.deliveries[mark:]
    lu.script = None
    if not kw:
        WORLD.probe("no_optionals")
    doc = documented_optionals(method)
    if doc and all(k in kw for k in doc):
        WORLD.probe("all_optionals")
    summary = {"outcome": "ok" if kind == "ok" else type(val).__name__, "commands": len(dl)}

    def done():
        return V, summary, (kind == "ok" and len(dl) == 1)

    if op.get("fault") and device == "plain" and op["fault"].get("kind") == "device_raises":
        n_calls = len(dev.calls) - calls0
        dev.fail_with = None
        if n_calls != 1 or kind == "ok":
            V.append(dict(oracle="C13.exactly-once", where=where, detail="device-raises/%s/count=%d" % (op["fault"]["exc"], n_calls),
                          expected="the command handed to the (failing) device object exactly once, and its error reaches the caller",
                          actual="device.execute %d time(s); call %s" % (n_calls, "returned" if kind == "ok" else "raised %s" % type(val).__name__)))
        return V, summary, False
    if op.get("fault") and device != "plain":
        WORLD.armed.clear()
        if len(dl) != 1 or len(handed) != 1:
            V.append(dict(oracle="C13.exactly-once", where=where, detail="faulted/count=%d/%d" % (len(handed), len(dl)),
                          expected="the command handed to the failing device exactly once", actual="device.execute %d time(s), %d command(s) at the binding; call %s" % (
                              len(handed), len(dl), "returned" if kind == "ok" else "raised %s" % type(val).__name__)))
        return V, summary, False
    # 1. exactly one command at the seam
    if len(dl) != 1:
        V.append(dict(oracle="C13.exactly-once", where=where, detail="count=%d%s" % (len(dl), ("/" + type(val).__name__) if kind == "exc" else ""),
                      expected="the command handed to the device exactly once", actual="%d time(s); call %s" % (len(dl), "returned" if kind == "ok" else "raised %r" % (val,))[:200]))
        return done()
    d = dl[0]
    if device != "plain":
        if len(handed) != 1:
            V.append(dict(oracle="C13.exactly-once", where=where, detail="device.execute=%d" % len(handed),
                          expected="device.execute called exactly once", actual="%d time(s)" % len(handed)))
            return done()
        d.update(handed[0])
    cdb = d["cdb"]
    # 2. opcode / service action of the attached set
    spec = a["opname"]
    if isinstance(spec, tuple):
        want_op = int(spec[1], 16)
        lay = C.LAYOUTS[t10]
        got_sa = C.get_field(cdb, lay["sa"][0]) if len(cdb) > 1 else None
        if cdb[0] != want_op or got_sa != spec[2]:
            V.append(dict(oracle="C13.opcode", where=where, detail="sa",
                          expected="opcode %#04x service action %#04x" % (want_op, spec[2]), actual="cdb %s" % cdb.hex()))
    else:
        want_op = getattr(dev.opcodes, spec).value
        if cdb[0] != want_op:
            V.append(dict(oracle="C13.opcode", where=where, detail="opcode",
                          expected="opcode %#04x (%s.%s)" % (want_op, setname, spec), actual="cdb %s" % cdb.hex()))
    # 3. arguments at the standard's fields (layout by expected command)
    want_len = C.cdb_len(C.LAYOUTS[t10]["opcode"])
    if len(cdb) != C.cdb_len(cdb[0]) and C.cdb_len(cdb[0]) is not None:
        V.append(dict(oracle="C13.cdb-length", where=where, detail="len=%d" % len(cdb), expected="%d bytes for opcode %#04x" % (C.cdb_len(cdb[0]), cdb[0]), actual=cdb.hex()))
    if len(cdb) == want_len:
        f = C.decode(t10, cdb)
        if a.get("ata"):
            f["ATA_LBA"] = C.ata_lba_12(cdb) if a["ata"] == 12 else C.ata_lba_16(cdb)
        for name, field, bits in a["pos"]:
            if field is None:
                continue
            if f.get(field) != pos[name]:
                V.append(dict(oracle="C13.argument-lost", where=where, detail=name,
                              expected="%s=%r in CDB field %s" % (name, pos[name], field), actual="field holds %r (cdb %s)" % (f.get(field), cdb.hex())))
        supplied = {k: v for k, v in kw.items() if k in doc}
        for name, v in supplied.items():
            field, bits = a["opt"][doc[name]]
            if field is None:
                continue
            if f.get(field) != v:
                V.append(dict(oracle="C13.argument-lost", where=where, detail=name,
                              expected="%s=%r in CDB field %s" % (name, v, field), actual="field holds %r (cdb %s)" % (f.get(field), cdb.hex())))
        # defaults of omitted optional arguments reach the CDB
        cmd_seen = d.get("cmd")
        if cmd_seen is None and kind == "ok":
            cmd_seen = val
        if cmd_seen is not None:
            dflt = ctor_defaults(cmd_seen)
            given = set(doc.get(k, k) for k in kw)
            for name, (field, bits) in a["opt"].items():
                if name in given or field is None or name not in dflt or not isinstance(dflt[name], int):
                    continue
                if f.get(field) != dflt[name] & ((1 << max(bits, 1)) - 1 if bits < 15 else (1 << 64) - 1):
                    V.append(dict(oracle="C13.default-lost", where=where, detail=name,
                                  expected="default %s=%r in CDB field %s when omitted" % (name, dflt[name], field), actual="field holds %r" % (f.get(field),)))
        # ... and so do the defaults the facade's documentation states ("curdata = 1, ...")
        given = set(doc.get(k, k) for k in kw)
        for name, dv in documented_defaults(method).items():
            field, bits = a["opt"][name]
            if name in given or field is None:
                continue
            if f.get(field) != dv & ((1 << max(bits, 1)) - 1 if bits < 15 else (1 << 64) - 1):
                V.append(dict(oracle="C13.documented-default-lost", where=where, detail=name,
                              expected="documented default %s = %r in CDB field %s when the argument is omitted" % (name, dv, field),
                              actual="field holds %r" % (f.get(field),)))
            else:
                WORLD.probe("documented_default_ok")
        if a.get("plist"):
            if f.get("pll") != len(d["dataout"]):
                V.append(dict(oracle="C13.parameter-list-length", where=where, detail="pll",
                              expected="parameter list length == %d bytes handed to the device" % len(d["dataout"]), actual="%r" % (f.get("pll"),)))
    if kind == "exc":
        # the command went out once, then the call failed: is that the class's own decoder failing on this buffer?
        buf = d.get("data_in_obj")
        cmd_seen = d.get("cmd")
        consistent = False
        if cmd_seen is not None and hasattr(type(cmd_seen), "unmarshall_datain") and buf is not None:
            k2, v2 = worlds.outcome_of(lambda: type(cmd_seen).unmarshall_datain(bytearray(buf), **decode_kwargs(method, pos, kw)))
            consistent = k2 == "exc" and (type(v2) is type(val) or (isinstance(v2, AttributeError) and isinstance(val, NotImplementedError)))
        if not consistent:
            V.append(dict(oracle="C13.call-fails", where=where, detail=type(val).__name__,
                          expected="the call returns the command (the device completed it with GOOD)", actual=repr(val)[:160]))
        else:
            WORLD.probe("decoder_itself_raises")
        return done()
    cmd = val
    # 4. identity: the object the device saw is the object returned, with the very same buffers
    if True:
        if d["cmd"] is not cmd:
            V.append(dict(oracle="C13.identity", where=where, detail="cmd", expected="returned command is the one handed to the device", actual="different object"))
        for attr in ("cdb", "datain", "dataout"):
            seen = d[{"cdb": "cdb_obj", "datain": "data_in_obj", "dataout": "data_out_obj"}[attr]]
            if getattr(cmd, attr) is not seen:
                V.append(dict(oracle="C13.identity", where=where, detail=attr,
                              expected="cmd.%s is the buffer the device was given" % attr, actual="a different object"))
    if device != "plain":
        for attr, key in (("datain", "binding_data_in_obj"), ("dataout", "binding_data_out_obj")):
            buf = getattr(cmd, attr)
            seen_b = d.get(key)
            if buf is not None and len(buf) and seen_b is not buf:
                V.append(dict(oracle="C13.identity", where=where, detail="binding-" + attr,
                              expected="the transport binding is given cmd.%s itself" % attr, actual="it received another object (%s)" % type(seen_b).__name__))
    if bytes(cmd.cdb) != cdb:
        V.append(dict(oracle="C13.identity", where=where, detail="cdb-bytes", expected="cmd.cdb == CDB sent", actual="%s vs %s" % (bytes(cmd.cdb).hex(), cdb.hex())))
    # 5. decoding happened after execute, on what the device left
    final = bytes(cmd.datain) if cmd.datain is not None else b""
    if d.get("inlen", len(final)) and device != "plain":
        exp = bytes(len(final)) if nonce % 16 == 0 else response_for(method, C.decode(t10, cdb) if len(cdb) == want_len else {}, cdb, nonce, len(final), dev_type)[:len(final)]
        if final[:len(exp)] != exp:
            V.append(dict(oracle="C13.buffer-not-filled", where=where, detail="datain",
                          expected="cmd.datain holds the device's data", actual="first bytes %s, device sent %s" % (final[:8].hex(), exp[:8].hex())))
    cls = type(cmd)
    if hasattr(cls, "unmarshall_datain"):
        dk = decode_kwargs(method, pos, kw)
        k_f, r_f = worlds.outcome_of(lambda: cls.unmarshall_datain(bytearray(final), **dk))
        k_z, r_z = worlds.outcome_of(lambda: cls.unmarshall_datain(bytearray(len(final)), **dk))
        if k_f == "ok":
            got = canon(cmd.result)
            if got != canon(r_f):
                V.append(dict(oracle="C13.decode-order", where=where, detail="result",
                              expected="cmd.result == %s.unmarshall_datain(final buffer)" % cls.__name__,
                              actual="differs%s" % (" (equals the decode of the untouched zero buffer)" if k_z == "ok" and got == canon(r_z) else "")))
            elif k_z != "ok" or canon(r_z) != canon(r_f):
                WORLD.probe("decode_after_execute")
    return done()


def simplify(prog):
    for n, op in enumerate(prog["ops"]):
        for k in sorted(op["kw"]):
            c = copy.deepcopy(prog)
            c["ops"][n]["kw"].pop(k)
            yield c
        cfg = op.get("cfg") or prog["config"]
        if cfg["device"] != "plain":
            c = copy.deepcopy(prog)
            if "cfg" in c["ops"][n]:
                c["ops"][n]["cfg"]["device"] = "plain"
            else:
                c["config"]["device"] = "plain"
            yield c
        for k, v in sorted(op["pos"].items()):
            if isinstance(v, int) and v > 1:
                c = copy.deepcopy(prog)
                c["ops"][n]["pos"][k] = 1 if k != "lba" else 0
                yield c
