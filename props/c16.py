"""C16 - attaching to a device selects the command set of its peripheral
device type.  Workload: attach / re-attach histories over simulated devices of
all 32 types x 8 qualifiers on both transports, with follow-up commands and
CHECK CONDITION faults on the attach INQUIRY.  Oracle: seam history (exactly
one standard INQUIRY per attach), the selected set per family, no leak, and
'depends only on this device's type' by comparison with a fresh attach."""

import copy

from sim import facade as F
from sim import worlds
from sim.seams import WORLD, install, import_pyscsi
from t10 import cdb as C
from t10 import sense as S
from t10 import targets as T

ID = "C16"
LEVEL = "exploration"
COUNTS = {"quick": 3000, "thorough": 200000}
RULE = ("seeded histories of 1-8 attach / re-attach / follow-up-command events over 1-4 simulated devices (any of 32 device types x "
        "8 qualifiers; SG_IO, iSCSI or an application-defined device object with plain attributes) with optional CHECK CONDITION on the attach INQUIRY and node replacement by another type; "
        "enumerated: every (type, qualifier, transport) attached alone with its follow-up commands (768 programs, complete in both tiers). "
        "Non-trivial = at least two events or a re-attach to a device of a different family; distinct = event digest")
ENUMERATED_NOTE = "32 peripheral device types x 8 qualifiers x 3 transports (SG_IO, iSCSI, plain device object), single attach + follow-up commands: complete in both tiers"
COMPONENTS = {"real": ["SCSI.__init__/__call__/type detection", "Inquiry", "SCSIDevice", "ISCSIDevice", "opcode tables (as selected)"],
              "stubs": ["sgio module", "iscsi module", "virtual /dev"],
              "simulated_peers": ["t10.targets Generic/Block/Changer/Mmc LUs dispatching by T10 opcode"]}
ASSUMPTIONS = [
    "family discriminators by T10 name/opcode: SBC {WRITE_SAME_16=93h, SYNCHRONIZE_CACHE_16=91h, READ_CAPACITY_10=25h, READ_16=88h}, SSC {REWIND=01h, SPACE_6=11h, WRITE_FILEMARKS_6=10h}, MMC {READ_CD=BEh, READ_DISC_INFORMATION=51h}, SMC {MOVE_MEDIUM=A5h, READ_ELEMENT_STATUS=B8h, EXCHANGE_MEDIUM=A6h}",
    "for types other than 00h/04h/07h/01h/05h/08h only the primary commands (INQUIRY, TEST UNIT READY, REPORT LUNS) are demanded",
    "re-attaching the same device object after its node changed type is judged only on the recognised-family clauses",
]
REQUIRED_PROBES = ["foreign_command_not_sent", "plain_device", "iscsi_nonzero_lun", "reattach_other_family", "attach_fault", "followup_ok", "unknown_type"]

FAMILY = {0x00: "sbc", 0x04: "sbc", 0x07: "sbc", 0x01: "ssc", 0x05: "mmc", 0x08: "smc"}
DISC = {
    "sbc": {"WRITE_SAME_16": 0x93, "SYNCHRONIZE_CACHE_16": 0x91, "READ_CAPACITY_10": 0x25, "READ_16": 0x88, "WRITE_16": 0x8A},
    "ssc": {"REWIND": 0x01, "SPACE_6": 0x11, "WRITE_FILEMARKS_6": 0x10},
    "mmc": {"READ_CD": 0xBE, "READ_DISC_INFORMATION": 0x51},
    "smc": {"MOVE_MEDIUM": 0xA5, "READ_ELEMENT_STATUS": 0xB8, "EXCHANGE_MEDIUM": 0xA6},
}
# names that only one family owns (no leak check); READ_16/WRITE_16 are shared by SBC and SSC
EXCLUSIVE = {
    "sbc": ["WRITE_SAME_16", "SYNCHRONIZE_CACHE_16", "READ_CAPACITY_10"],
    "ssc": ["REWIND", "SPACE_6", "WRITE_FILEMARKS_6"],
    "mmc": ["READ_CD", "READ_DISC_INFORMATION"],
    "smc": ["MOVE_MEDIUM", "READ_ELEMENT_STATUS", "EXCHANGE_MEDIUM"],
}
PRIMARY = {"INQUIRY": 0x12, "TEST_UNIT_READY": 0x00, "REPORT_LUNS": 0xA0}


def setup(repo):
    install()
    import_pyscsi(repo)


def gen_dev(rng):
    r = rng.random()
    if r < 0.55:
        t = rng.choice([0, 0, 4, 7, 1, 5, 8, 8, 5])
    else:
        t = rng.randrange(32)
    return {"type": t, "qual": rng.choice([0, 0, 0, 1, 3, rng.randrange(8)]), "transport": rng.choice(["sgio", "iscsi", "sgio", "iscsi", "plain"]),
            "inq_len": rng.choice([36, 96, 96, 96, 128, 164, 255]), "lun": rng.choice([0, 0, 1, 3]),
            "decoy_type": rng.choice([0, 1, 5, 8, 3]), "shared_portal": rng.random() < 0.4}


def generate(rng, idx, tier):
    nd = rng.choice([1, 2, 2, 3, 4])
    devs = [gen_dev(rng) for _ in range(nd)]
    ops = []
    n = rng.choice([1, 2, 3, 4, 6, 8])
    attached = False
    for i in range(n):
        r = rng.random()
        if not attached or r < 0.5:
            op = {"op": "attach", "dev": rng.randrange(nd), "new_facade": (not attached) or rng.random() < 0.2}
            if rng.random() < 0.12:
                op["fault"] = {"kind": "status", "byte": 2, "sense": S.fixed(rng.choice([2, 6]), *rng.choice([(0x04, 0x01), (0x29, 0x00)])).hex()}
                if rng.random() < 0.35:
                    op["fault"] = {"kind": "status", "byte": rng.choice([0x08, 0x28, 0x18])}      # BUSY / TASK SET FULL / RESERVATION CONFLICT on the attach INQUIRY
            attached = True
        elif r < 0.9:
            op = {"op": "followup", "seed": rng.randrange(1 << 30)}
        else:
            op = {"op": "retype", "dev": rng.randrange(nd), "type": rng.choice([0, 1, 5, 8, 3, 0x1F, rng.randrange(32)])}
        ops.append(op)
    return {"property": ID, "config": {"devs": devs}, "ops": ops}


def enumerated_count(tier):
    return 32 * 8 * 3


def enumerated(k, tier):
    t = k % 32
    q = (k // 32) % 8
    tr = ["sgio", "iscsi", "plain"][k // 256]
    return {"property": ID, "config": {"devs": [{"type": t, "qual": q, "transport": tr, "inq_len": [36, 96, 164, 255][(t + q) % 4], "lun": [0, 2][(t >> 1) & 1] if tr == "iscsi" else 0,
                                                 "decoy_type": [0, 8, 5, 1][t % 4]}]},
            "ops": [{"op": "attach", "dev": 0, "new_facade": True}, {"op": "followup", "seed": k}, {"op": "followup", "seed": k + 1}]}


def _portal(n, spec):
    # several targets may live behind one portal (one storage array, many target names)
    return "10.0.0.9:3260" if spec.get("shared_portal") else "10.0.0.%d:3260" % (n + 1)


def _mk_lu(t, q, ident):
    return T.make_lu(t, q, ident)


DECOYS = []


def _open(spec, n):
    lu = _mk_lu(spec["type"], spec["qual"], n + 1)
    lu.inq_len = spec.get("inq_len", 96)
    if spec["transport"] == "sgio":
        path = "/dev/sg%d" % n
        WORLD.plug(path, lu)
        SCSI, SCSIDevice, ISCSIDevice = worlds.lib()
        return SCSIDevice(path), lu
    if spec["transport"] == "plain":
        # an application's own device object (the shape of the test suite's MockDevice, with plain attributes)
        from props.c13 import PlainDevice
        import pyscsi.pyscsi.scsi_enum_command as E
        WORLD.probe("plain_device")
        return PlainDevice(E.spc, lu, None), lu
    SCSI, SCSIDevice, ISCSIDevice = worlds.lib()
    lun = spec.get("lun", 0)
    key = (_portal(n, spec), "iqn.2026-10.verif:tgt%d" % n, lun)
    WORLD.iscsi_targets[key] = lu
    if lun != 0:
        # another logical unit of another type lives at LUN 0 of the same target: it must never be addressed
        decoy = _mk_lu(spec.get("decoy_type", 0) if spec.get("decoy_type", 0) != spec["type"] else 3, 0, 50 + n)
        WORLD.iscsi_targets[(key[0], key[1], 0)] = decoy
        DECOYS.append(decoy)
        WORLD.probe("iscsi_nonzero_lun")
    return ISCSIDevice("iscsi://%s/%s/%d" % (key[0], key[1], lun), "iqn.2026-10.verif:init"), lu


def opc_snapshot(opc):
    """the set as a comparable value: sorted (name, opcode value)"""
    out = []
    for name in sorted(opc.keys):
        v = getattr(opc, name)
        out.append((name, getattr(v, "value", v)))
    return out


def offers(opc, name, value):
    v = getattr(opc, name, None)
    return v is not None and getattr(v, "value", None) == value


def judge_set(dev, dtype, where, V):
    opc = dev.opcodes
    fam = FAMILY.get(dtype)
    if fam:
        missing = [n for n, v in DISC[fam].items() if not offers(opc, n, v)]
        if missing:
            V.append(dict(oracle="C16.family-set", where=where, detail="type=%02x" % dtype,
                          expected="%s command set offering %s" % (fam.upper(), sorted(DISC[fam])), actual="missing/wrong: %s" % missing))
        leak = [n for f, names in EXCLUSIVE.items() if f != fam for n in names if getattr(opc, n, None) is not None]
        if leak:
            V.append(dict(oracle="C16.family-leak", where=where, detail="type=%02x" % dtype,
                          expected="%s set without other families' commands" % fam.upper(), actual="also offers %s" % leak))
    else:
        WORLD.probe("unknown_type")
    missing = [n for n, v in PRIMARY.items() if not offers(opc, n, v)]
    if missing:
        V.append(dict(oracle="C16.primary-missing", where=where, detail="type=%02x" % dtype,
                      expected="INQUIRY, TEST UNIT READY, REPORT LUNS offered", actual="missing/wrong: %s" % missing))


def followups(dtype, seed):
    fam = FAMILY.get(dtype)
    base = [("inquiry", [], {}), ("testunitready", [], {}), ("reportluns", [], {})]
    if fam == "sbc":
        base += [("read16", [seed % 100, 1], {}), ("writesame16", [seed % 50, 2, bytearray(512)], {}), ("readcapacity10", [], {}),
                 ("synchronizecache16", [0, 1], {}), ("readcapacity16", [], {}), ("getlbastatus", [seed % 100], {}),
                 ("reporttargetportgroups", [], {})]
    elif fam == "mmc":
        base += [("readcd", [seed % 100, 1], {"est": 2, "mcsb": 2, "c2ei": 0, "scsb": 0}), ("readdiscinformation", [0], {})]
    elif fam == "smc":
        base += [("readelementstatus", [0, 10], {}), ("positiontoelement", [0, 0x100], {}), ("reporttargetportgroups", [], {})]
    if fam != "sbc":
        # commands of the block command set looked up by service action (9Eh): not part of this device's set, must not reach it
        base += [("!readcapacity16", [], {}), ("!getlbastatus", [0], {})]
    return base[seed % len(base)]


def execute(prog):
    WORLD.reset()
    del DECOYS[:]
    SCSI, SCSIDevice, ISCSIDevice = worlds.lib()
    specs = copy.deepcopy(prog["config"]["devs"])
    devs, lus = [], []
    for n, spec in enumerate(specs):
        d, lu = _open(spec, n)
        devs.append(d)
        lus.append(lu)
    V = []
    scsi = None
    cur = None
    prev_family = None
    summary = []
    attach_log = []      # (dev index, type at that time, snapshot)
    for i, op in enumerate(prog["ops"]):
        WORLD.ev("op", i=i, **{k: v for k, v in op.items() if k != "fault"})
        WORLD.armed.clear()
        if op["op"] == "retype":
            n = op["dev"]
            specs[n]["type"] = op["type"]
            lu = _mk_lu(op["type"], specs[n]["qual"], 100 + i)
            lus[n] = lu
            if specs[n]["transport"] == "sgio":
                # same path, same handle generation: the LU behind the node changes type (e.g. after a firmware/config change)
                WORLD.nodes["/dev/sg%d" % n].target = lu
                for h in WORLD.handles:
                    if h.name == "/dev/sg%d" % n:
                        h.node.target = lu
            elif specs[n]["transport"] == "plain":
                devs[n].lu = lu
            else:
                key = (_portal(n, specs[n]), "iqn.2026-10.verif:tgt%d" % n, specs[n].get("lun", 0))
                WORLD.iscsi_targets[key] = lu
            specs[n]["retyped"] = True
            specs[n]["stale"] = True      # the facade has not looked at this device since
            summary.append("retype")
            continue
        if op["op"] == "attach":
            n = op["dev"]
            dev, lu, spec = devs[n], lus[n], specs[n]
            where = "%s/%s" % (spec["transport"], "attach" if (scsi is None or op.get("new_facade")) else "reattach")
            if op.get("fault") and spec["transport"] == "plain":
                op = dict(op)
                op.pop("fault")      # faults are injected at the two bindings; a plain device object has none
            if op.get("fault"):
                WORLD.arm(op["fault"])
                WORLD.probe("attach_fault")
            mark = len(WORLD.deliveries)
            marks = [len(l.log) for l in lus]
            if scsi is None or op.get("new_facade"):
                kind, val = worlds.outcome_of(lambda: SCSI(dev, blocksize=512))
                if kind == "ok":
                    scsi = val
            else:
                kind, val = worlds.outcome_of(lambda: scsi(dev))
            dl = WORLD.deliveries[mark:]
            # seam history: exactly one command, a standard INQUIRY, to this device's target and to no other
            others = [j for j, l in enumerate(lus) if j != n and len(l.log) != marks[j] and l is not lu]
            if len(dl) != 1 or others:
                V.append(dict(oracle="C16.one-inquiry", where=where, detail="count=%d%s" % (len(dl), "+other" if others else ""),
                              expected="exactly one command, sent to the attached device", actual="%d commands; other devices touched: %s" % (len(dl), others)))
            if dl:
                cdb = dl[0]["cdb"]
                f = C.decode("INQUIRY", cdb) if C.identify(cdb) == "INQUIRY" and len(cdb) == 6 else None
                if f is None or f["evpd"] or f["page_code"]:
                    V.append(dict(oracle="C16.standard-inquiry", where=where, detail="cdb",
                                  expected="standard INQUIRY (12h, EVPD=0, page 0)", actual=cdb.hex()))
                elif f["alloc"] < 5:
                    V.append(dict(oracle="C16.standard-inquiry", where=where, detail="alloc",
                                  expected="allocation length covering the peripheral device type", actual=cdb.hex()))
            if op.get("fault"):
                summary.append("attach-fault:%s" % (kind if kind == "ok" else type(val).__name__))
                # the attach INQUIRY failed: how that surfaces is C07's business; which device the facade
                # now points at is not stated by the property, so nothing is judged until the next attach
                cur = None
                continue
            if kind == "exc":
                V.append(dict(oracle="C16.attach-fails", where=where, detail=type(val).__name__,
                              expected="attach succeeds (INQUIRY completed with GOOD)", actual=repr(val)[:120]))
                summary.append("attach-exc")
                continue
            cur = n
            dtype = spec["type"]
            spec["stale"] = False
            if getattr(dev, "devicetype", None) != dtype:
                V.append(dict(oracle="C16.devicetype", where=where, detail="type=%02x" % dtype,
                              expected="device.devicetype == %#04x (qualifier %d ignored)" % (dtype, spec["qual"]),
                              actual=repr(getattr(dev, "devicetype", None))))
            if not spec.get("retyped") or FAMILY.get(dtype):
                judge_set(dev, dtype, where, V)
            fam = FAMILY.get(dtype, "other")
            if prev_family is not None and prev_family != fam:
                WORLD.probe("reattach_other_family")
            prev_family = fam
            if not spec.get("retyped"):
                attach_log.append((n, dtype, spec["qual"], spec["transport"], opc_snapshot(dev.opcodes)))
            summary.append("attach:%02x" % dtype)
            continue
        if op["op"] == "followup":
            if scsi is None or cur is None:
                summary.append("-")
                continue
            spec, dev = specs[cur], devs[cur]
            m, args, kw = followups(spec["type"], op["seed"])
            if spec.get("stale") or (spec.get("retyped") and not FAMILY.get(spec["type"])):
                m, args, kw = ("testunitready", [], {})
            where = "%s/followup" % spec["transport"]
            if m.startswith("!"):
                # a command another family owns: the facade must not find it in this device's set, and nothing may reach the device
                m = m[1:]
                mark = len(WORLD.deliveries)
                kind, val = worlds.outcome_of(lambda: getattr(scsi, m)(*args, **kw))
                sent = [d for d in WORLD.deliveries[mark:] if d.get("cdb") and d["cdb"][0] == 0x9E]
                if sent:
                    V.append(dict(oracle="C16.family-leak", where=where, detail="type=%02x/%s" % (spec["type"], m),
                                  expected="%s is not in the command set of a type %#04x device: nothing is sent" % (m, spec["type"]),
                                  actual="SERVICE ACTION IN(16) %s reached the device" % sent[0]["cdb"].hex()))
                else:
                    WORLD.probe("foreign_command_not_sent")
                summary.append("!%s:%s" % (m, kind))
                continue
            kind, val = worlds.outcome_of(lambda: getattr(scsi, m)(*args, **kw))
            if kind == "exc":
                V.append(dict(oracle="C16.followup-fails", where=where, detail="type=%02x/%s" % (spec["type"], m),
                              expected="%s works end to end on a type %#04x device" % (m, spec["type"]), actual=repr(val)[:120]))
            else:
                WORLD.probe("followup_ok")
            summary.append("%s:%s" % (m, kind))
    touched = [d.dev_type for d in DECOYS if d.log]
    if touched:
        V.append(dict(oracle="C16.wrong-logical-unit", where="iscsi", detail="lun0",
                      expected="commands go to the logical unit named in the URL", actual="LUN 0 of the target received %d command(s)" % sum(len(d.log) for d in DECOYS)))
    # the set selected for a device depends only on that device's type: compare with a fresh, history-free attach
    seen = {}
    for n, dtype, qual, transport, snap in attach_log:
        key = (dtype, qual, transport)
        if key not in seen:
            spec = {"type": dtype, "qual": qual, "transport": transport}
            d, lu = _open(spec, 10 + len(seen))
            kind, val = worlds.outcome_of(lambda: SCSI(d, blocksize=512))
            seen[key] = opc_snapshot(d.opcodes) if kind == "ok" else None
        if seen[key] is not None and snap != seen[key]:
            V.append(dict(oracle="C16.depends-on-history", where=transport, detail="type=%02x" % dtype,
                          expected="same command set as a fresh attach to a type %#04x device" % dtype,
                          actual="differs in %d entries" % len(set(map(tuple, snap)) ^ set(map(tuple, seen[key])))))
    out, sigs = [], set()
    for v in V:
        k = (v["oracle"], v["where"], v["detail"])
        if k not in sigs:
            sigs.add(k)
            out.append(v)
    stats = {"events": len(WORLD.events)}
    for k, v in WORLD.fired.items():
        stats["fired." + k] = v
    for k, v in WORLD.probes.items():
        stats["probe." + k] = v
    return {"digest": WORLD.digest(), "violations": out, "nontrivial": WORLD.probes.get("reattach_other_family", 0) > 0 or len(prog["ops"]) >= 2,
            "stats": stats, "summary": summary, "events_tail": WORLD.events[-6:]}


def simplify(prog):
    for i, op in enumerate(prog["ops"]):
        if op.get("fault"):
            c = copy.deepcopy(prog)
            c["ops"][i].pop("fault")
            yield c
    for n, d in enumerate(prog["config"]["devs"]):
        if d["qual"]:
            c = copy.deepcopy(prog)
            c["config"]["devs"][n]["qual"] = 0
            yield c
        if d["transport"] == "iscsi":
            c = copy.deepcopy(prog)
            c["config"]["devs"][n]["transport"] = "sgio"
            yield c
