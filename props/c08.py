"""C08 - sense data is always decodable and printable, with the right
key/ASC/ASCQ.  The sense buffers are fault payloads: they exist only on the
CHECK CONDITION path, which only a simulated binding can drive."""

import io

from sim import facade as F
from sim import worlds
from sim.seams import WORLD, install, import_pyscsi
from t10 import sense as S

ID = "C08"
LEVEL = "fault_enumeration"
COUNTS = {"quick": 3000, "thorough": 150000}
RULE = ("CHECK CONDITION faults with generated sense payloads (response code 70h-73h/unknown x 16 keys x ASC/ASCQ x VALID x "
        "length 1-252 x filler; 3% empty buffers over iSCSI; a quarter on a re-executed command object, a quarter through the facade) injected into commands on the SG_IO and iSCSI devices; the application then does str(), print() "
        "and reads key/asc/ascq. Enumerated: all 256 ASCQ for every (format, key, ASC) = the full 65536-pair code space per key "
        "and format (thorough), one key per format (quick). Non-trivial = at least one payload was delivered as CHECK CONDITION "
        "and reached the decoder; distinct = event digest")
ENUMERATED_NOTE = "response code {70,71,72,73} x sense key (16 thorough / 1 per format quick) x ASC (256) x ASCQ (256), length 18 (fixed) / 8 (descriptor)"
COMPONENTS = {"real": ["SCSICheckCondition (scsi_sense.py)", "SCSIDevice.execute / ISCSIDevice.execute CHECK CONDITION paths", "exception metaclass"],
              "stubs": ["sgio module (truncates sense to the max_sense_data_length passed: 32)", "iscsi module", "virtual /dev"],
              "simulated_peers": ["t10.targets.BlockLU"]}
ASSUMPTIONS = [
    "key/ASC/ASCQ positions from SPC-4 4.5: fixed byte 2 low nibble, bytes 12/13; descriptor byte 1 low nibble, bytes 2/3; bytes beyond the buffer read as zero",
    "the sense key is read from exc.data['sense_key'] (or an attribute sense_key), ASC/ASCQ from exc.asc/exc.ascq - the observation points the property names",
    "T10 text is demanded (case-insensitive substring) only for the ~150 well-known codes in t10/sense.py and the 15 named sense keys",
    "for response codes outside 70h-73h only 'does not raise' is demanded",
]
REQUIRED_PROBES = ["reinspected", "print_data_option", "decoded_ok", "text_ok", "rc_deferred", "rc_unknown", "short_buffer", "long_sense_iscsi", "empty_sense_iscsi", "command_object_reused", "through_facade", "sense_buffer_reused", "error_copied", "first_look_later"]

RCS = [0x70, 0x71, 0x72, 0x73]


def setup(repo):
    install()
    import_pyscsi(repo)


def gen_payload(rng):
    r = rng.random()
    if r < 0.3:
        rc = 0x70
    elif r < 0.45:
        rc = 0x72
    elif r < 0.6:
        rc = 0x71
    elif r < 0.7:
        rc = 0x73
    elif r < 0.8:
        rc = rng.choice([0x00, 0x7F, 0x74, 0x6F, 0x01])
    else:
        rc = rng.randrange(128)
    key = rng.randrange(16)
    r = rng.random()
    if r < 0.45:
        asc, ascq = rng.choice(sorted(S.ASC_TEXT))
    elif r < 0.6:
        asc, ascq = rng.randrange(0x80, 0x100), rng.randrange(256)
    elif r < 0.7:
        asc, ascq = rng.randrange(0x80), rng.randrange(0x80, 0x100)
    else:
        asc, ascq = rng.randrange(256), rng.randrange(256)
    r = rng.random()
    if r < 0.25:
        ln = rng.randrange(1, 19)
    elif r < 0.6:
        ln = 18
    elif r < 0.8:
        ln = rng.choice([8, 20, 32, 33, 64, 96])
    else:
        ln = rng.randrange(1, 253)
    filler = rng.choice([0, 0, 0xFF, rng.randrange(256)])
    if rc in (0x72, 0x73) or (rc not in (0x70, 0x71) and rng.random() < 0.5):
        buf = S.descriptor(key, asc, ascq, response_code=rc, length=ln, filler=filler)
    else:
        buf = S.fixed(key, asc, ascq, response_code=rc, valid=rng.randrange(2), info=rng.randrange(1 << 32), length=ln,
                      filler=filler, sks=rng.randrange(1 << 24))
    if rng.random() < 0.1 and len(buf) > 1:
        b = bytearray(buf)
        for _ in range(rng.randrange(1, 4)):
            i = rng.randrange(1, len(b))
            b[i] = rng.randrange(256)
        buf = bytes(b)
    return buf


def generate(rng, idx, tier):
    n = rng.choice([4, 8, 16, 32])
    ops = []
    for _ in range(n):
        ops.append({"sense": gen_payload(rng).hex(), "transport": rng.choice(["sgio", "iscsi"]),
                    "raw": rng.random() < 0.15})
        r = rng.random()
        if r < 0.25:
            ops[-1]["reuse"] = True          # the command object of the previous failure on this transport is executed again (retry loop)
        elif r < 0.5:
            ops[-1]["facade"] = True         # the command goes through the facade (SCSI.testunitready), as applications do
        if rng.random() < 0.2:
            ops[-1]["defer"] = True
        if rng.random() < 0.03:
            # CHECK CONDITION whose sense buffer is present but empty (the iSCSI binding hands over zero bytes; the SG_IO binding
            # reports an unspecified error in that case, which is C07's)
            ops[-1].update(sense="", transport="iscsi")
    return {"property": ID, "config": {"iscsi_sense_bytearray": rng.random() < 0.5,
                                       # the binding keeps one sense buffer and overwrites it with every failure
                                       "reuse_sense_buffer": rng.random() < 0.3}, "ops": ops}


def _keys(tier):
    return list(range(16)) if tier == "thorough" else None


def enumerated_count(tier):
    if tier == "thorough":
        return 4 * 16 * 256
    return 4 * 256 + 4 * 16   # all pairs for one key per format, plus every key x format once


def enumerated(k, tier):
    if tier == "thorough":
        rc = RCS[k // (16 * 256)]
        key = (k // 256) % 16
        asc = k % 256
        return {"property": ID, "config": {}, "sweep": {"rc": rc, "key": key, "asc": asc, "transport": "iscsi" if (k & 1) else "sgio"}, "ops": []}
    if k < 4 * 256:
        rc = RCS[k // 256]
        key = [5, 2, 6, 3][k // 256]
        asc = k % 256
        return {"property": ID, "config": {}, "sweep": {"rc": rc, "key": key, "asc": asc, "transport": "iscsi" if (k & 1) else "sgio"}, "ops": []}
    k -= 4 * 256
    rc = RCS[k // 16]
    key = k % 16
    ops = [{"sense": (S.fixed(key, a, q, response_code=rc) if rc in (0x70, 0x71) else S.descriptor(key, a, q, response_code=rc)).hex(),
            "transport": t, "raw": False} for (a, q) in sorted(S.ASC_TEXT) for t in ("sgio",)]
    return {"property": ID, "config": {}, "ops": ops}


def judge(exc, handed, where, V):
    exp = S.decode(handed)
    rc = exp["response_code"]
    rcn = "%#04x" % rc if rc in RCS else "other"
    if rc in (0x71, 0x73):
        WORLD.probe("rc_deferred")
    if rc not in RCS:
        WORLD.probe("rc_unknown")
    if len(handed) < 14:
        WORLD.probe("short_buffer")
    try:
        text = str(exc)
    except Exception as e:  # noqa
        V.append(dict(oracle="C08.str-raises", where=where, detail="rc=%s/%s" % (rcn, type(e).__name__),
                      expected="str(exc) returns text for sense %s" % handed.hex(), actual=repr(e)[:120]))
        return
    try:
        buf = io.StringIO()
        print(exc, file=buf)
    except Exception as e:  # noqa
        V.append(dict(oracle="C08.print-raises", where=where, detail="rc=%s/%s" % (rcn, type(e).__name__),
                      expected="print(exc) works for sense %s" % handed.hex(), actual=repr(e)[:120]))
        return
    if exp["fmt"] is None:
        WORLD.probe("unknown_rc_printable")
        return
    try:
        data = getattr(exc, "data", None)
        key = data.get("sense_key") if isinstance(data, dict) and "sense_key" in data else getattr(exc, "sense_key", None)
        got = (key, exc.asc, exc.ascq)
    except Exception as e:  # noqa
        V.append(dict(oracle="C08.values-unreadable", where=where, detail="rc=%s/%s" % (rcn, type(e).__name__),
                      expected="key/asc/ascq readable for sense %s" % handed.hex(), actual=repr(e)[:120]))
        return
    want = (exp["key"], exp["asc"], exp["ascq"])
    if got != want:
        V.append(dict(oracle="C08.wrong-values", where=where, detail="rc=%s" % rcn,
                      expected="key/asc/ascq %r for sense %s" % (want, handed.hex()), actual=repr(got)))
        return
    WORLD.probe("decoded_ok")
    if (exp["asc"], exp["ascq"]) in S.ASC_TEXT:
        t10 = S.ASC_TEXT[(exp["asc"], exp["ascq"])]
        if t10.lower() not in text.lower():
            V.append(dict(oracle="C08.asc-text", where=where, detail="asc=%02x%02x" % (exp["asc"], exp["ascq"]),
                          expected="text containing %r" % t10, actual=text[:160]))
            return
        WORLD.probe("text_ok")
    if exp["key"] != 0xC and S.SENSE_KEYS[exp["key"]].lower() not in text.lower():
        V.append(dict(oracle="C08.key-text", where=where, detail="key=%x" % exp["key"],
                      expected="text containing %r" % S.SENSE_KEYS[exp["key"]], actual=text[:160]))


KEPT = []      # error objects kept by the application (a log of failures), re-inspected at the end of the run


LAST_CMD = {}
FACADES = {}


def one(dev, sense, raw, where, V, reuse=False, facade=False, defer=False):
    from pyscsi.pyscsi.scsi_cdb_testunitready import TestUnitReady
    if reuse and LAST_CMD.get(where) is not None:
        cmd = LAST_CMD[where]
        WORLD.probe("command_object_reused")
    else:
        cmd = TestUnitReady(dev.opcodes.TEST_UNIT_READY)
    LAST_CMD[where] = cmd
    WORLD.armed.clear()
    WORLD.arm({"kind": "sense_payload", "sense": sense.hex()})
    mark = len(WORLD.deliveries)
    if facade and not raw and where in FACADES:
        WORLD.probe("through_facade")
        kind, val = worlds.outcome_of(lambda: FACADES[where].testunitready())
        cmd = None
    else:
        kind, val = worlds.outcome_of(lambda: dev.execute(cmd, en_raw_sense=True) if raw else dev.execute(cmd))
    d = WORLD.deliveries[mark:]
    if not d or d[0]["status"] != 0x02:
        raise RuntimeError("harness: sense payload was not delivered")
    handed = d[0]["handed"]
    if len(handed) > 32:
        WORLD.probe("long_sense_iscsi")
    if not handed:
        WORLD.probe("empty_sense_iscsi")
    cc_cls = getattr(type(dev), "CheckCondition", None)
    if kind == "ok":
        if raw:
            # allowed by C07 when raw sense was requested; decode what the caller would decode
            from pyscsi.pyscsi.scsi_sense import SCSICheckCondition
            kind, val = worlds.outcome_of(lambda: SCSICheckCondition(cmd.raw_sense_data))
        else:
            V.append(dict(oracle="C08.no-error-object", where=where, detail="returned",
                          expected="a CheckCondition for sense %s" % handed.hex(), actual="execute returned normally"))
            return
    if kind == "exc" and not (isinstance(cc_cls, type) and isinstance(val, cc_cls)) and not type(val).__name__ == "SCSICheckCondition":
        rc = (handed[0] & 0x7F) if handed else 0
        V.append(dict(oracle="C08.construct-raises", where=where, detail="rc=%s/%s" % ("%#04x" % rc if rc in RCS else "other", type(val).__name__),
                      expected="a CheckCondition for sense %s" % handed.hex(), actual=repr(val)[:120]))
        return
    if defer and len(KEPT) < 24:
        # the application only stores this error now (a log of failures) and looks at it after further commands failed
        WORLD.probe("first_look_later")
        KEPT.append((val, handed, where))
        return
    judge(val, handed, where, V)
    if len(KEPT) < 24:
        KEPT.append((val, handed, where))
    # the constructor's print_data option: converting to text also prints the decoded fields
    if handed and (handed[0] & 0x7F) in RCS and (len(handed) % 3) == 0 and isinstance(cc_cls, type):
        import contextlib
        WORLD.probe("print_data_option")
        cap = io.StringIO()
        with contextlib.redirect_stdout(cap):
            k2, v2 = worlds.outcome_of(lambda: str(cc_cls(handed, True)))
        if k2 == "exc":
            V.append(dict(oracle="C08.str-raises", where=where, detail="print_data/%s" % type(v2).__name__,
                          expected="str() of CheckCondition(sense, print_data=True) returns text for sense %s" % handed.hex(), actual=repr(v2)[:120]))
        elif not cap.getvalue().strip():
            V.append(dict(oracle="C08.print-elsewhere", where=where, detail="print_data",
                          expected="the decoded fields are printed to the standard output in effect when the error is converted to text",
                          actual="nothing arrived at sys.stdout"))
    # errors travel (logging, queues between threads, re-raising elsewhere): a shallow copy is the same error
    if (len(handed) % 5) == 0 and kind == "exc" and hasattr(val, "asc"):
        import copy as _copy
        WORLD.probe("error_copied")
        k4, v4 = worlds.outcome_of(lambda: _copy.copy(val))
        if k4 == "exc":
            V.append(dict(oracle="C08.copy-raises", where=where, detail=type(v4).__name__,
                          expected="copy.copy(error) gives an equal error (sense %s)" % handed.hex(), actual=repr(v4)[:120]))
        else:
            k5, v5 = worlds.outcome_of(lambda: (str(v4), v4.asc, v4.ascq))
            k6, v6 = worlds.outcome_of(lambda: (str(val), val.asc, val.ascq))
            if k6 == "ok" and (k5 == "exc" or v5 != v6):
                V.append(dict(oracle="C08.copy-differs", where=where, detail="copy",
                              expected="the copy prints and reports like the original: %r" % (v6[1:],), actual=repr(v5)[:120]))


def execute(prog):
    WORLD.reset()
    WORLD.flags["iscsi_sense_bytearray"] = bool(prog["config"].get("iscsi_sense_bytearray"))
    WORLD.flags["reuse_sense_buffer"] = bool(prog["config"].get("reuse_sense_buffer"))
    if WORLD.flags["reuse_sense_buffer"]:
        WORLD.probe("sense_buffer_reused")
    cfg = F.default_cfg(F.BLOCK)
    devs = {t: worlds.open_device(t, worlds.make_lu(cfg, ident=n + 1)) for n, t in enumerate(("sgio", "iscsi"))}
    V = []
    n = 0
    del KEPT[:]
    LAST_CMD.clear()
    FACADES.clear()
    SCSI = worlds.lib()[0]
    for t, d in devs.items():
        FACADES[t] = SCSI(d, blocksize=512)
    if prog.get("sweep"):
        sw = prog["sweep"]
        dev = devs[sw["transport"]]
        for ascq in range(256):
            if sw["rc"] in (0x70, 0x71):
                s = S.fixed(sw["key"], sw["asc"], ascq, response_code=sw["rc"])
            else:
                s = S.descriptor(sw["key"], sw["asc"], ascq, response_code=sw["rc"])
            one(dev, s, False, sw["transport"], V)
            n += 1
            if len(V) > 8:
                break
    for i, op in enumerate(prog["ops"]):
        WORLD.ev("op", i=i, transport=op["transport"])
        one(devs[op["transport"]], bytes.fromhex(op["sense"]), op.get("raw", False), op["transport"], V, reuse=op.get("reuse", False), facade=op.get("facade", False), defer=op.get("defer", False))
        n += 1
    # errors collected earlier must still say what they said: later errors must not change them
    V2 = []
    for exc, handed, where in KEPT:
        judge(exc, handed, where, V2)
    for v in V2:
        v["oracle"] = v["oracle"] + "-later"
        v["expected"] = "(re-inspected after later errors were built) " + str(v["expected"])
    if KEPT:
        WORLD.probe("reinspected", len(KEPT))
    V += V2
    # one violation per signature is enough per run
    seen, out = set(), []
    for v in V:
        s = (v["oracle"], v["where"], v["detail"])
        if s not in seen:
            seen.add(s)
            out.append(v)
    stats = {"events": len(WORLD.events), "payloads": n}
    for k, v in WORLD.fired.items():
        stats["fired." + k] = v
    for k, v in WORLD.probes.items():
        stats["probe." + k] = v
    return {"digest": WORLD.digest(), "violations": out, "nontrivial": n > 0, "stats": stats,
            "summary": {"payloads": n, "violations": len(out)}, "events_tail": WORLD.events[-4:]}


def repair(prog):
    if prog.get("sweep") and not prog["ops"]:
        return prog
    return prog


def simplify(prog):
    import copy
    if prog.get("sweep"):
        # turn the sweep into explicit ops so that ddmin can isolate the payload
        sw = prog["sweep"]
        c = copy.deepcopy(prog)
        c.pop("sweep")
        c["ops"] = [{"sense": (S.fixed(sw["key"], sw["asc"], q, response_code=sw["rc"]) if sw["rc"] in (0x70, 0x71)
                               else S.descriptor(sw["key"], sw["asc"], q, response_code=sw["rc"])).hex(),
                     "transport": sw["transport"], "raw": False} for q in range(256)]
        yield c
        return
    if len(prog["ops"]) > 1:
        for i in range(len(prog["ops"])):
            c = copy.deepcopy(prog)
            c["ops"] = [prog["ops"][i]]
            yield c
    for i, op in enumerate(prog["ops"]):
        s = bytes.fromhex(op["sense"])
        d = S.decode(s)
        if d["fmt"]:
            simple = (S.fixed if d["fmt"] == "fixed" else S.descriptor)(d["key"], d["asc"], d["ascq"], response_code=d["response_code"])
            if simple != s and len(simple) <= len(s):
                c = copy.deepcopy(prog)
                c["ops"][i]["sense"] = simple.hex()
                yield c
        if op["transport"] == "iscsi":
            c = copy.deepcopy(prog)
            c["ops"][i]["transport"] = "sgio"
            yield c
        if op.get("raw"):
            c = copy.deepcopy(prog)
            c["ops"][i]["raw"] = False
            yield c
